// mkinfo is a fresh server process that reports what it knows about one bucket
// after the production start-up: schema, timeframe, record type (DataService.GetInfo).
//
//	mkinfo <root> <key> <out.json>
package main

import (
	"fmt"
	"os"

	"github.com/alpacahq/marketstore/v4/frontend"

	"verifharness/hx"
	"verifharness/wl"
)

type Info struct {
	Error      string   `json:"error,omitempty"`
	Timeframe  int64    `json:"timeframe_ns"`
	RecordType int      `json:"record_type"`
	Names      []string `json:"names"`
	Types      []string `json:"types"`
	LatestYear int      `json:"latest_year"`
}

func main() {
	root, key, out := os.Args[1], os.Args[2], os.Args[3]
	in := hx.NewInst(root, hx.InstOpts{})
	resp := &frontend.MultiGetInfoResponse{}
	err := in.DS.GetInfo(nil, &frontend.MultiKeyRequest{Requests: []frontend.KeyRequest{{Key: key}}}, resp)
	info := Info{}
	if err != nil {
		info.Error = err.Error()
	} else if len(resp.Responses) != 1 {
		info.Error = fmt.Sprintf("%d responses", len(resp.Responses))
	} else {
		r := resp.Responses[0]
		info.Error = r.ServerResp.Error
		info.Timeframe = int64(r.TimeFrame)
		info.RecordType = int(r.RecordType)
		info.LatestYear = r.LatestYear
		for _, ds := range r.DSV {
			info.Names = append(info.Names, ds.Name)
			info.Types = append(info.Types, hx.TypeStr[ds.Type])
		}
	}
	if err := wl.WriteJSON(out, &info); err != nil {
		fmt.Fprintln(os.Stderr, err)
		os.Exit(3)
	}
	os.Exit(0)
}
