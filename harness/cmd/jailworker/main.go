// jailworker executes a sequence of API requests with untrusted bucket keys
// inside a chroot jail, so that a path-traversal defect of the server cannot
// touch the real file system.
//
//	jailworker <jail-dir> <data-root-inside-jail> <ops.json-inside-jail>
//
// It chroots into <jail-dir>, starts a server instance on the data root and
// runs the requests through frontend.DataService. Per request it prints one
// line "RES <i> <ok|err|panic> <text>".
package main

import (
	"encoding/json"
	"fmt"
	"os"
	"syscall"

	"github.com/alpacahq/marketstore/v4/frontend"
	"github.com/alpacahq/marketstore/v4/utils/io"

	"verifharness/hx"
)

type Op struct {
	Kind string `json:"kind"` // create | write | query | getinfo | destroy
	Key  string `json:"key"`  // "items" or "items:categories"
}

func main() {
	jail, root, opsPath := os.Args[1], os.Args[2], os.Args[3]
	if err := syscall.Chroot(jail); err != nil {
		fmt.Println("NOJAIL", err)
		os.Exit(4)
	}
	os.Chdir("/")
	b, err := os.ReadFile(opsPath)
	if err != nil {
		fmt.Println("NOOPS", err)
		os.Exit(3)
	}
	var ops []Op
	if err := json.Unmarshal(b, &ops); err != nil {
		fmt.Println("NOOPS", err)
		os.Exit(3)
	}
	in := hx.NewInst(root, hx.InstOpts{})
	for i, op := range ops {
		func() {
			defer func() {
				if r := recover(); r != nil {
					fmt.Printf("RES %d panic %v\n", i, r)
				}
			}()
			var err error
			var msg string
			switch op.Kind {
			case "create":
				req := frontend.CreateRequest{Key: op.Key, ColumnNames: []string{"A"}, ColumnTypes: []string{"i4"}}
				resp := &frontend.MultiServerResponse{}
				err = in.DS.Create(nil, &frontend.MultiCreateRequest{Requests: []frontend.CreateRequest{req}}, resp)
				for _, r := range resp.Responses {
					msg += r.Error
				}
			case "write":
				cs := io.NewColumnSeries()
				cs.AddColumn("Epoch", []int64{1583020800, 1583020860})
				cs.AddColumn("A", []int32{1, 2})
				nds, _ := io.NewNumpyDataset(cs)
				nmds := &io.NumpyMultiDataset{NumpyDataset: *nds, StartIndex: map[string]int{op.Key: 0}, Lengths: map[string]int{op.Key: 2}}
				resp := &frontend.MultiServerResponse{}
				err = in.DS.Write(nil, &frontend.MultiWriteRequest{Requests: []frontend.WriteRequest{{Data: nmds}}}, resp)
				for _, r := range resp.Responses {
					msg += r.Error
				}
			case "query":
				resp := &frontend.MultiQueryResponse{}
				dest, cat := op.Key, ""
				for j := 0; j < len(op.Key); j++ {
					if op.Key[j] == ':' {
						dest, cat = op.Key[:j], op.Key[j+1:]
						break
					}
				}
				err = in.DS.Query(nil, &frontend.MultiQueryRequest{Requests: []frontend.QueryRequest{{Destination: dest, KeyCategory: cat}}}, resp)
			case "getinfo":
				resp := &frontend.MultiGetInfoResponse{}
				err = in.DS.GetInfo(nil, &frontend.MultiKeyRequest{Requests: []frontend.KeyRequest{{Key: op.Key}}}, resp)
				for _, r := range resp.Responses {
					msg += r.ServerResp.Error
				}
			case "destroy":
				resp := &frontend.MultiServerResponse{}
				err = in.DS.Destroy(nil, &frontend.MultiKeyRequest{Requests: []frontend.KeyRequest{{Key: op.Key}}}, resp)
				for _, r := range resp.Responses {
					msg += r.Error
				}
			}
			switch {
			case err != nil:
				fmt.Printf("RES %d err %.200s\n", i, err.Error())
			case msg != "":
				fmt.Printf("RES %d err %.200s\n", i, msg)
			default:
				fmt.Printf("RES %d ok\n", i)
			}
		}()
	}
	fmt.Println("DONE")
	os.Exit(0)
}
