// mkwork runs a generated history against a real server instance (production
// DI container) on an empty root. It is run under strace; after each step it
// writes a marker line to fd 1 with a single write(2), so that the trace shows
// where acknowledgements fall among the file mutations.
//
//	mkwork <history.json> <root>
package main

import (
	"fmt"
	"os"
	"sync"
	"syscall"
	"time"

	"github.com/alpacahq/marketstore/v4/frontend"
	"github.com/alpacahq/marketstore/v4/utils/io"

	"verifharness/hx"
	"verifharness/wl"
)

var markMu sync.Mutex

func mark(format string, a ...interface{}) {
	markMu.Lock()
	defer markMu.Unlock()
	s := fmt.Sprintf(format, a...) + "\n"
	syscall.Write(1, []byte(s))
}

func main() {
	var h wl.History
	if err := wl.ReadJSON(os.Args[1], &h); err != nil {
		fmt.Fprintln(os.Stderr, err)
		os.Exit(3)
	}
	root := os.Args[2]
	o := hx.InstOpts{}
	if h.Mode == "bg" {
		o.WALRefresh = time.Duration(h.WALRefreshMs) * time.Millisecond
		o.PrimaryRefresh = time.Duration(h.PrimaryRefreshMs) * time.Millisecond
		o.RotateInterval = h.Rotate
		if h.WALRefreshMs == 0 { // production timers
			o.Background = true
			o.WALRefresh = 0
		}
	}
	in := hx.NewInst(root, o)
	mark("READY")
	buckets := make([]*hx.Bucket, len(h.Buckets))
	for i, b := range h.Buckets {
		buckets[i] = b.Bucket()
	}
	doOp := func(i int) {
		op := h.Ops[i]
		switch op.Kind {
		case "write":
			csm := io.NewColumnSeriesMap()
			variable := false
			for pi, p := range op.Parts {
				csm.AddColumnSeries(*buckets[p.Bucket].TBK(), h.Rows(i, pi).ToCS())
				variable = h.Buckets[p.Bucket].Variable
			}
			mark("BEG %d", i)
			if err := in.W.WriteCSM(csm, variable); err != nil {
				mark("ERR %d %v", i, err)
				return
			}
			mark("ACK %d", i)
		case "checkpoint":
			mark("BEG %d", i)
			if err := in.WAL.CreateCheckpoint(); err != nil {
				mark("ERR %d %v", i, err)
				return
			}
			mark("ACK %d", i)
		case "destroy":
			mark("BEG %d", i)
			resp := &frontend.MultiServerResponse{}
			err := in.DS.Destroy(nil, &frontend.MultiKeyRequest{Requests: []frontend.KeyRequest{{Key: buckets[op.Bucket].Key()}}}, resp)
			for _, r := range resp.Responses {
				if err == nil && r.Error != "" {
					err = fmt.Errorf("%s", r.Error)
				}
			}
			if err != nil {
				mark("ERR %d %v", i, err)
				return
			}
			mark("ACK %d", i)
		case "sleep":
			time.Sleep(time.Duration(op.Ms) * time.Millisecond)
		case "dump":
			// in-process dump of every bucket (the view "just before the shutdown")
			d := wl.Dump{Phase: "pre-shutdown"}
			for _, b := range buckets {
				bd := wl.BucketDump{Key: b.Key()}
				rows, err := in.QueryAll(b)
				if err != nil {
					bd.Error = err.Error()
				} else if rows.Len() > 0 {
					bd.Epoch, bd.Nanos = rows.Epoch, rows.Nanos
					for ci, n := range rows.Names {
						switch n {
						case "Tag":
							bd.Tag, _ = rows.Cols[ci].([]int64)
						case "Val":
							bd.Val, _ = rows.Cols[ci].([]int32)
						}
					}
				}
				d.Buckets = append(d.Buckets, bd)
			}
			if len(os.Args) > 3 {
				wl.WriteJSON(os.Args[3], &d)
			}
		case "shutdown":
			mark("BEG %d", i)
			in.WAL.Shutdown()
			mark("ACK %d", i)
		}
	}
	writers := h.Writers
	if writers <= 1 {
		for i := range h.Ops {
			doOp(i)
		}
	} else {
		// ops of writer w run in order on goroutine w; ops with Writer<0 (shutdown) run after all
		var wg sync.WaitGroup
		for w := 0; w < writers; w++ {
			wg.Add(1)
			go func(w int) {
				defer wg.Done()
				for i, op := range h.Ops {
					if op.Writer == w && op.Kind != "shutdown" {
						doOp(i)
					}
				}
			}(w)
		}
		wg.Wait()
		for i, op := range h.Ops {
			if op.Kind == "shutdown" {
				doOp(i)
			}
		}
	}
	mark("DONE")
	os.Exit(0)
}
