// mkrestart is "a fresh server process after a crash": it performs the
// production start-up path (catalog load, WAL creation, replay and removal of
// left-over WAL files) on an existing root and dumps the requested buckets.
//
//	mkrestart <root> <buckets.json> <out.json> [phase]
//
// Exit 0 = start-up completed and dump written; a panic exits with status 2
// and the panic text on stderr (both are observations for the caller).
package main

import (
	"fmt"
	"os"
	"path/filepath"
	"sort"
	"strings"

	"github.com/alpacahq/marketstore/v4/catalog"

	"verifharness/hx"
	"verifharness/wl"
)

func main() {
	root, out := os.Args[1], os.Args[3]
	var specs []wl.BucketSpec
	if err := wl.ReadJSON(os.Args[2], &specs); err != nil {
		fmt.Fprintln(os.Stderr, err)
		os.Exit(3)
	}
	phase := ""
	if len(os.Args) > 4 {
		phase = os.Args[4]
	}
	in := hx.NewInst(root, hx.InstOpts{})
	d := wl.Dump{Phase: phase}
	for _, s := range specs {
		b := s.Bucket()
		bd := wl.BucketDump{Key: b.Key()}
		rows, err := in.QueryAll(b)
		if err != nil {
			bd.Error = err.Error()
		} else if rows.Len() > 0 {
			bd.Epoch, bd.Nanos = rows.Epoch, rows.Nanos
			for i, n := range rows.Names {
				switch n {
				case "Tag":
					bd.Tag, _ = rows.Cols[i].([]int64)
				case "Val":
					bd.Val, _ = rows.Cols[i].([]int32)
				}
			}
			if bd.Tag == nil || bd.Val == nil {
				bd.Error = fmt.Sprintf("columns %v: Tag/Val missing or retyped", rows.Names)
			}
		}
		d.Buckets = append(d.Buckets, bd)
	}
	ents, _ := os.ReadDir(root)
	for _, e := range ents {
		if strings.HasSuffix(e.Name(), ".walfile") || strings.HasSuffix(e.Name(), ".tmp") {
			name := e.Name()
			if filepath.Join(root, name) == in.WAL.FilePtr.Name() {
				name = "OWN:" + name
			}
			d.WALFiles = append(d.WALFiles, name)
		}
	}
	sort.Strings(d.WALFiles)
	d.Catalog = catalog.ListTimeBucketKeyNames(in.Cat)
	sort.Strings(d.Catalog)
	if err := wl.WriteJSON(out, &d); err != nil {
		fmt.Fprintln(os.Stderr, err)
		os.Exit(3)
	}
	os.Exit(0)
}
