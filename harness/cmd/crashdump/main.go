// crashdump prints the parsed events of an strace log (debugging aid).
package main

import (
	"fmt"
	"os"

	"verifharness/crashfs"
)

func main() {
	ev, err := crashfs.ParseFile(os.Args[1], os.Args[2])
	if err != nil {
		fmt.Println("ERR", err)
		os.Exit(1)
	}
	for i, e := range ev {
		fmt.Printf("%3d %s\n", i, e.Describe())
	}
	fmt.Println("crash points:", len(crashfs.CrashPoints(ev)))
}
