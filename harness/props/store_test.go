package props

import (
	"fmt"
	"os"
	"sort"
	"time"

	"github.com/alpacahq/marketstore/v4/utils/io"
	"pgregory.net/rapid"

	"verifharness/hx"
)

// storeCase is a generated stored history in a fresh instance, used by the
// metamorphic query checks (C11, C12, C13, C19, C20).
type storeCase struct {
	in   *hx.Inst
	root string
	b    *hx.Bucket
	m    *hx.MBucket
	all  *hx.Rows // the server's own all-time result
}

func (s *storeCase) close() {
	s.in.Close()
	os.RemoveAll(s.root)
}

type storeOpts struct {
	variable bool
	types    []io.EnumElementType
	maxCols  int
	maxReq   int
	maxRows  int
	sym      string
	in       *hx.Inst // reuse an instance (multi-bucket cases)
	pool     *hx.TimePool
	tf       string
	schema   []io.DataShape
}

func genCoarseTF(t *rapid.T) string {
	switch c := rapid.IntRange(0, 99).Draw(t, "tfclass"); {
	case c < 3:
		return rapid.SampledFrom(hx.DiskTimeframes[:3]).Draw(t, "tf")
	case c < 10:
		return "1Min"
	case c < 20:
		return "5Min"
	}
	return rapid.SampledFrom(hx.DiskTimeframes[5:]).Draw(t, "tf")
}

func buildStore(t *rapid.T, rec *hx.Rec, o storeOpts) *storeCase {
	tf := o.tf
	if tf == "" {
		tf = genCoarseTF(t)
	}
	if o.maxCols == 0 {
		o.maxCols = 3
	}
	if o.maxReq == 0 {
		o.maxReq = 4
	}
	if o.maxRows == 0 {
		o.maxRows = 25
	}
	if o.sym == "" {
		o.sym = "S"
	}
	schema := o.schema
	if schema == nil {
		schema = hx.GenSchema(t, o.maxCols, o.types)
	}
	b := &hx.Bucket{Sym: o.sym, TF: tf, Group: "G", Variable: o.variable, Schema: schema}
	pool := o.pool
	if pool == nil {
		pool = hx.NewTimePool(t, hx.TFDuration(tf), rapid.IntRange(1, 3).Draw(t, "nyears"))
	}
	sc := &storeCase{b: b, m: hx.NewMBucket(b), in: o.in}
	if sc.in == nil {
		sc.root = hx.ScratchDir("st")
		sc.in = hx.NewInst(sc.root, hx.InstOpts{})
	}
	nreq := rapid.IntRange(1, o.maxReq).Draw(t, "nreq")
	for q := 0; q < nreq; q++ {
		n := rapid.IntRange(1, o.maxRows).Draw(t, "nrows")
		var rows *hx.Rows
		if o.variable {
			rows = genVarRows(t, b, pool, n, "random", rec)
		} else {
			rows = genRows(t, b, pool, n, rec)
		}
		if err := sc.in.WriteVia(b, rows, 1); err != nil {
			t.Fatalf("write %d: %v", q, err)
		}
		sc.m.Apply(rows, q)
	}
	all, err := sc.in.QueryAll(b)
	if err != nil {
		t.Fatalf("all-time query: %v", err)
	}
	sc.all = all
	return sc
}

// rowTimeNs is the full-precision time of row i of a result.
func rowTimeNs(r *hx.Rows, i int) int64 {
	t := r.Epoch[i] * 1e9
	if r.Nanos != nil {
		t += int64(r.Nanos[i])
	}
	return t
}

// subRows returns rows [lo,hi) of r.
func subRows(r *hx.Rows, idx []int) *hx.Rows {
	out := &hx.Rows{Names: r.Names}
	if r.Nanos != nil {
		out.Nanos = []int32{}
	}
	for _, i := range idx {
		out.Epoch = append(out.Epoch, r.Epoch[i])
		if r.Nanos != nil {
			out.Nanos = append(out.Nanos, r.Nanos[i])
		}
	}
	for _, c := range r.Cols {
		out.Cols = append(out.Cols, pickCol(c, idx))
	}
	return out
}

// sameRows compares two results row for row (times and value bytes, order).
func sameRows(got, want *hx.Rows) error {
	if got.Len() != want.Len() {
		return fmt.Errorf("%d rows, want %d (got times %v, want %v)", got.Len(), want.Len(), headTimes(got), headTimes(want))
	}
	if got.Len() == 0 {
		return nil
	}
	if fmt.Sprint(got.Names) != fmt.Sprint(want.Names) {
		return fmt.Errorf("columns %v, want %v", got.Names, want.Names)
	}
	for i := 0; i < got.Len(); i++ {
		if rowTimeNs(got, i) != rowTimeNs(want, i) {
			return fmt.Errorf("row %d at %d ns, want %d ns", i, rowTimeNs(got, i), rowTimeNs(want, i))
		}
		if string(hx.RowBytes(got, i)) != string(hx.RowBytes(want, i)) {
			return fmt.Errorf("row %d (t=%d ns): values %x, want %x", i, rowTimeNs(got, i), hx.RowBytes(got, i), hx.RowBytes(want, i))
		}
	}
	return nil
}

func headTimes(r *hx.Rows) []int64 {
	var o []int64
	for i := 0; i < r.Len() && i < 12; i++ {
		o = append(o, rowTimeNs(r, i))
	}
	return o
}

// boundCandidates returns interesting range bounds (ns since epoch) for a stored history.
func boundCandidates(sc *storeCase) []int64 {
	tf := sc.b.TFDur()
	res := hx.ResolutionNs(tf)
	set := map[int64]bool{}
	add := func(v int64) {
		if v >= 0 {
			set[v] = true
		}
	}
	for i := 0; i < sc.all.Len(); i++ {
		tn := rowTimeNs(sc.all, i)
		for _, d := range []int64{0, 1, -1, res, -res} {
			add(tn + d)
		}
		s := hx.SlotStart(sc.all.Epoch[i], tf) * 1e9
		e := s + tf.Nanoseconds()
		for _, v := range []int64{s, s - 1, s + 1, e, e - 1, e + 1, s + tf.Nanoseconds()/2} {
			add(v)
		}
		y := time.Unix(sc.all.Epoch[i], 0).UTC().Year()
		ys := time.Date(y, 1, 1, 0, 0, 0, 0, time.UTC).UnixNano()
		ye := time.Date(y+1, 1, 1, 0, 0, 0, 0, time.UTC).UnixNano()
		for _, v := range []int64{ys, ys - 1, ye, ye - 1} {
			add(v)
		}
	}
	if sc.all.Len() > 0 {
		add(rowTimeNs(sc.all, 0) - 400*86400*1e9)
		add(rowTimeNs(sc.all, sc.all.Len()-1) + 400*86400*1e9)
	}
	add(time.Date(2010, 6, 1, 0, 0, 0, 0, time.UTC).UnixNano())
	out := make([]int64, 0, len(set))
	for v := range set {
		out = append(out, v)
	}
	sort.Slice(out, func(i, j int) bool { return out[i] < out[j] })
	return out
}

// inRange applies the property's definition of "in range" to row i of all.
func inRange(sc *storeCase, i int, startNs, endNs int64) bool {
	tn := rowTimeNs(sc.all, i)
	if sc.b.Variable {
		return tn >= startNs && tn <= endNs
	}
	ss := hx.SlotStart(floorDiv(startNs, 1e9), sc.b.TFDur()) * 1e9
	return tn >= ss && tn <= endNs
}

func floorDiv(a, b int64) int64 {
	q := a / b
	if a%b < 0 {
		q--
	}
	return q
}

func nsTime(ns int64) time.Time { return time.Unix(floorDiv(ns, 1e9), ns-floorDiv(ns, 1e9)*1e9).UTC() }
