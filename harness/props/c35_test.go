package props

import (
	"bytes"
	"fmt"
	"os"
	"os/exec"
	"path/filepath"
	"reflect"
	"strings"
	"testing"

	"pgregory.net/rapid"

	"verifharness/hx"
	"verifharness/wl"
)

// runPlain executes a history with mkwork (no tracing) on a fresh root and returns the
// marker lines, the pre-shutdown dump and the root directory.
func runPlain(h *wl.History) (marks []string, pre *wl.Dump, dir, root string, err error) {
	dir = hx.ScratchDir("plain")
	root = filepath.Join(dir, "root")
	hp := filepath.Join(dir, "history.json")
	dp := filepath.Join(dir, "predump.json")
	if err = wl.WriteJSON(hp, h); err != nil {
		return
	}
	cmd := exec.Command(filepath.Join(binDir(), "mkwork"), hp, root, dp)
	cmd.Env = append(os.Environ(), "GOGC=off", "TZ=UTC")
	var out, errb bytes.Buffer
	cmd.Stdout, cmd.Stderr = &out, &errb
	if err = cmd.Run(); err != nil {
		err = fmt.Errorf("workload failed: %v\nstderr: %.2000s", err, errb.String())
		return
	}
	marks = strings.Split(strings.TrimSpace(out.String()), "\n")
	var d wl.Dump
	if e := wl.ReadJSON(dp, &d); e == nil {
		pre = &d
	}
	return
}

func dumpsEqual(a, b *wl.Dump) string {
	for _, x := range a.Buckets {
		y := dumpFor(b, x.Key)
		if y == nil {
			return "bucket " + x.Key + " missing after restart"
		}
		if x.Error != y.Error {
			return fmt.Sprintf("bucket %s: error before shutdown %q, after restart %q", x.Key, x.Error, y.Error)
		}
		if !reflect.DeepEqual(x.Epoch, y.Epoch) || !reflect.DeepEqual(x.Tag, y.Tag) || !reflect.DeepEqual(x.Val, y.Val) || !reflect.DeepEqual(x.Nanos, y.Nanos) {
			return fmt.Sprintf("bucket %s: %d rows before shutdown (tags %v), %d rows after restart (tags %v)", x.Key, len(x.Tag), headI64(x.Tag), len(y.Tag), headI64(y.Tag))
		}
	}
	return ""
}

func headI64(v []int64) []int64 {
	if len(v) > 16 {
		return v[:16]
	}
	return v
}

// C35 Restart after graceful shutdown preserves query results (background sync enabled).
func TestC35(t *testing.T) {
	rec := hx.R("C35")
	rapid.Check(t, func(t *rapid.T) {
		full := genHistory(t, histOpts{minOps: 3, maxOps: envInt("VERIF_MAXOPS", 7), varBias: 55, checkpoints: false, multiPart: true, sameInterval: 35})
		full.Mode = "bg"
		timers := rapid.SampledFrom([][3]int{{0, 0, 5}, {2, 5, 2}, {1, 3, 1}, {5, 20, 3}, {3, 4, 1}}).Draw(t, "timers")
		full.WALRefreshMs, full.PrimaryRefreshMs, full.Rotate = timers[0], timers[1], timers[2]
		sleepy := rapid.Bool().Draw(t, "sleeps")
		// shutdown requested after op k, for every k
		for k := 1; k <= len(full.Ops); k++ {
			h := *full
			h.Ops = nil
			for i := 0; i < k; i++ {
				h.Ops = append(h.Ops, full.Ops[i])
				if sleepy && i%2 == 1 {
					h.Ops = append(h.Ops, wl.Op{Kind: "sleep", Ms: rapid.IntRange(1, 12).Draw(t, "sleepms")})
				}
			}
			nWrites := len(h.Ops)
			h.Ops = append(h.Ops, wl.Op{Kind: "dump"}, wl.Op{Kind: "shutdown"})
			marks, pre, dir, root, err := runPlain(&h)
			if err != nil {
				t.Fatalf("shutdown position %d: %v", k, err)
			}
			acked := map[int]bool{}
			for _, m := range marks {
				var n int
				if _, e := fmt.Sscanf(m, "ACK %d", &n); e == nil {
					acked[n] = true
				}
				if strings.HasPrefix(m, "ERR") {
					t.Fatalf("write rejected: %s", m)
				}
			}
			if pre == nil {
				t.Fatalf("no pre-shutdown dump")
			}
			res := restartOn(root, h.Buckets, "A")
			fail := func(msg string) {
				hx.SaveReplay("C35", map[string]interface{}{"history": h, "failure": msg})
				os.RemoveAll(dir)
				t.Fatalf("shutdown after op %d (timers wal=%dms primary=%dms rotate=%d): %s\nhistory: %s", k, h.WALRefreshMs, h.PrimaryRefreshMs, h.Rotate, msg, histJSON(&h))
			}
			if !res.OK {
				fail("restart after graceful shutdown fails: " + restartFailure(res))
			}
			// model: every acknowledged write present exactly once / last writer wins
			rows := historyRows(&h)
			for bi, spec := range h.Buckets {
				bd := dumpFor(res.Dump, spec.Bucket().Key())
				if bd.Error != "" {
					fail(fmt.Sprintf("bucket %s: %s", bd.Key, bd.Error))
				}
				cnt := map[int64]int{}
				for _, tg := range bd.Tag {
					cnt[tg]++
				}
				lastBySlot := map[int64]int64{}
				for _, w := range rows {
					if w.bucket != bi || !acked[w.op] {
						continue
					}
					if spec.Variable {
						if cnt[w.tag] == 0 {
							fail(fmt.Sprintf("bucket %s: acknowledged record tag=%d (op %d) lost", bd.Key, w.tag, w.op))
						}
						if cnt[w.tag] > 1 {
							fail(fmt.Sprintf("bucket %s: record tag=%d (op %d) returned %d times after graceful shutdown and restart", bd.Key, w.tag, w.op, cnt[w.tag]))
						}
					} else {
						lastBySlot[w.slot] = w.tag
					}
				}
				if !spec.Variable {
					got := map[int64]int64{}
					for i, e := range bd.Epoch {
						got[e] = bd.Tag[i]
					}
					for slot, tg := range lastBySlot {
						if got[slot] != tg {
							fail(fmt.Sprintf("bucket %s: slot %d holds tag %d, last acknowledged write has tag %d", bd.Key, slot, got[slot], tg))
						}
					}
				}
			}
			if d := dumpsEqual(pre, res.Dump); d != "" {
				fail("query results differ between just before the shutdown and after the restart: " + d)
			}
			// second restart: nothing left to replay, same answers
			res2 := restartOn(root, h.Buckets, "A")
			if !res2.OK {
				fail("second restart fails: " + restartFailure(res2))
			}
			if d := dumpsEqual(res.Dump, res2.Dump); d != "" {
				fail("second restart changes query results: " + d)
			}
			os.RemoveAll(dir)
			hasVar := false
			for _, w := range rows {
				if h.Buckets[w.bucket].Variable {
					hasVar = true
				}
			}
			nt := ""
			if hasVar && nWrites >= 2 {
				nt = fmt.Sprint(hx.Hash(histJSON(&h)))
			}
			rec.Case(nt, fmt.Sprintf("timers=%v", timers), fmt.Sprintf("sleeps=%v", sleepy))
		}
		rec.Sample(map[string]interface{}{"history": full, "shutdown_positions": len(full.Ops)})
		rec.Flush()
	})
	rec.Flush()
}
