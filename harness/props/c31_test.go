package props

import (
	"fmt"
	"testing"
	"time"
	_ "time/tzdata"

	"github.com/alpacahq/marketstore/v4/utils"
	"pgregory.net/rapid"

	"verifharness/hx"
)

// C31 Timeframe and candle-window arithmetic is consistent.
func TestC31(t *testing.T) {
	rec := hx.R("C31")
	locs := []*time.Location{}
	for _, z := range c30Zones {
		l, err := time.LoadLocation(z)
		if err != nil {
			t.Fatalf("zone: %v", err)
		}
		locs = append(locs, l)
	}
	// UTC-offset transitions of every zone 2009-2023 (found by scanning), so that timestamps can be
	// placed on the 23- and 25-hour days themselves: their first hours, the switch, their last hours
	trans := map[string][]time.Time{}
	for _, loc := range locs {
		prevOff := -1 << 30
		for d := time.Date(2009, 1, 1, 0, 0, 0, 0, time.UTC); d.Year() < 2024; d = d.Add(24 * time.Hour) {
			_, off := d.In(loc).Zone()
			if prevOff != -1<<30 && off != prevOff {
				for h := d.Add(-24 * time.Hour); h.Before(d.Add(time.Hour)); h = h.Add(30 * time.Minute) {
					if _, o2 := h.In(loc).Zone(); o2 == off {
						trans[loc.String()] = append(trans[loc.String()], h.In(loc))
						break
					}
				}
			}
			prevOff = off
		}
	}
	rapid.Check(t, func(t *rapid.T) {
		suffix := rapid.SampledFrom([]string{"Sec", "Min", "H", "D", "D", "W", "M", "Y"}).Draw(t, "suffix")
		// calendar units are mostly used with multiplier 1
		mult := rapid.OneOf(rapid.Just(1), rapid.IntRange(1, 4), rapid.SampledFrom([]int{1, 5, 7, 15, 30, 60, 90, 120, 1440}), rapid.IntRange(1, 9999)).Draw(t, "mult")
		if suffix == "Y" && mult > 200 {
			mult = mult%200 + 1 // multiples of years beyond time.Duration's range are not durations
		}
		if suffix == "W" && mult > 5000 {
			mult = mult % 5000
		}
		s := fmt.Sprintf("%d%s", mult, suffix)
		cd, err := utils.CandleDurationFromString(s)
		if err != nil {
			t.Fatalf("CandleDurationFromString(%q): %v", s, err)
		}
		loc := rapid.SampledFrom(locs).Draw(t, "zone")
		// timestamps: around DST switches of 2021 in the zone, year edges, random
		base := rapid.SampledFrom([]time.Time{
			time.Date(2021, 11, 7, 0, 30, 0, 0, loc), time.Date(2021, 3, 14, 1, 59, 59, 0, loc), time.Date(2021, 10, 3, 0, 10, 0, 0, loc),
			time.Date(2018, 11, 4, 0, 0, 1, 0, loc), time.Date(2020, 12, 31, 23, 59, 59, 999999999, loc), time.Date(2021, 1, 1, 0, 0, 0, 0, loc),
			time.Date(2024, 2, 29, 12, 0, 0, 0, loc), time.Date(2021, 6, 14, 3, 0, 0, 0, loc), time.Date(2021, 6, 13, 23, 0, 0, 0, loc),
		}).Draw(t, "base")
		ts := base.Add(time.Duration(rapid.Int64Range(-90000, 90000).Draw(t, "offsetSec"))*time.Second + time.Duration(rapid.Int64Range(0, 999999999).Draw(t, "ns")))
		if tl := trans[loc.String()]; len(tl) > 0 && rapid.IntRange(0, 2).Draw(t, "onTransitionDay") != 0 {
			// a chosen hour of the day before, of, or after a transition, in local wall-clock terms
			tr := rapid.SampledFrom(tl).Draw(t, "transition")
			day := rapid.IntRange(-1, 1).Draw(t, "dayOffset")
			hour := rapid.SampledFrom([]int{0, 0, 1, 2, 3, 12, 21, 22, 23, 23}).Draw(t, "hour")
			ts = time.Date(tr.Year(), tr.Month(), tr.Day()+day, hour, rapid.IntRange(0, 59).Draw(t, "min"), rapid.IntRange(0, 59).Draw(t, "sec"),
				rapid.SampledFrom([]int{0, 0, 1, 999999999, 500000000}).Draw(t, "nsec"), loc)
		} else if rapid.Bool().Draw(t, "random") {
			ts = time.Unix(rapid.Int64Range(631152000, 2208988800).Draw(t, "unix"), rapid.Int64Range(0, 999999999).Draw(t, "ns2")).In(loc)
		}
		tr, ce := cd.Truncate(ts), cd.Ceil(ts)
		desc := fmt.Sprintf("candle %s, timestamp %s (%s)", s, ts.Format(time.RFC3339Nano), loc)
		kf := func(id, what string) bool {
			if hx.KFOpen(id) {
				rec.KF(id, what)
				rec.Exclude(id)
				return true
			}
			return false
		}
		if tr.After(ts) {
			t.Fatalf("%s: window start %s is after the timestamp", desc, tr.Format(time.RFC3339Nano))
		}
		if !ce.After(ts) {
			t.Fatalf("%s: window end %s is not after the timestamp", desc, ce.Format(time.RFC3339Nano))
		}
		if !cd.IsWithin(ts, tr) {
			if !(suffix == "W" && kf("KF-31b", "timestamp not inside its own W window")) {
				t.Fatalf("%s: IsWithin(timestamp, window start %s) is false", desc, tr.Format(time.RFC3339Nano))
			}
		}
		// the timeframe chosen for querying divides the duration
		if suffix != "M" {
			q := cd.QueryableTimeframe()
			qtf := utils.TimeframeFromString(q)
			if qtf == nil || qtf.Duration <= 0 || cd.Duration()%qtf.Duration != 0 {
				t.Fatalf("candle %s (%v): queryable timeframe %q does not divide it", s, cd.Duration(), q)
			}
		}
		// parse -> print -> parse is stable (Timeframe)
		if suffix != "M" {
			tf := utils.TimeframeFromString(s)
			if tf == nil {
				t.Fatalf("TimeframeFromString(%q) = nil", s)
			}
			if tf.String != s {
				t.Fatalf("TimeframeFromString(%q).String = %q", s, tf.String)
			}
			if tf.Duration != cd.Duration() {
				t.Fatalf("%q: Timeframe duration %v, CandleDuration %v", s, tf.Duration, cd.Duration())
			}
			printed := utils.TimeframeFromDuration(tf.Duration)
			if printed == nil {
				// durations of a year and more that are not exactly one unit have no printed form
				// (TestTimeframeFromDuration pins nil for 5 years): nothing to parse back
				rec.Case("", "unprintable-duration")
				return
			}
			back := utils.TimeframeFromString(printed.String)
			if back == nil || back.Duration != tf.Duration {
				var bd time.Duration
				if back != nil {
					bd = back.Duration
				}
				t.Fatalf("%q = %v is printed as %q, which parses as %v", s, tf.Duration, printed.String, bd)
			}
		}
		nt := ""
		_, o1 := ts.Zone()
		_, o2 := ts.Add(-26 * time.Hour).Zone()
		_, o3 := ts.Add(26 * time.Hour).Zone()
		if o1 != o2 || o1 != o3 || ts.YearDay() <= 1 || ts.YearDay() >= 365 {
			nt = fmt.Sprint(s, ts.UnixNano(), loc)
			rec.Sample(map[string]interface{}{"candle": s, "timestamp": ts.Format(time.RFC3339Nano), "zone": loc.String(),
				"window_start": tr.Format(time.RFC3339), "window_end": ce.Format(time.RFC3339)})
		}
		rec.Case(nt, "suffix:"+suffix)
	})
	rec.Flush()
}
