package props

import (
	"fmt"
	"strings"
	"testing"

	"pgregory.net/rapid"

	"verifharness/crashfs"
	"verifharness/hx"
	"verifharness/wl"
)

// splitSpecs: buckets whose creating write was acknowledged before k (A) and the others (B).
func splitSpecs(cr *crashRun, k int) (a, b []wl.BucketSpec) {
	co := creatingOp(cr.H)
	hasDestroy := false
	for _, op := range cr.H.Ops {
		hasDestroy = hasDestroy || op.Kind == "destroy"
	}
	for bi, s := range cr.H.Buckets {
		if hasDestroy {
			if ex, settled := existsAt(cr, k, bi); ex && settled {
				a = append(a, s)
			} else {
				b = append(b, s)
			}
			continue
		}
		if op, ok := co[bi]; ok && cr.acked(op, k) {
			a = append(a, s)
		} else {
			b = append(b, s)
		}
	}
	return
}

// checkAckedPresent is C01's relation: after a restart at crash point k every
// acknowledged write is visible (fixed: last acknowledged value of the slot, or
// the value of a later write that was issued but not acknowledged; variable:
// every acknowledged record at least once).
func checkAckedPresent(cr *crashRun, k int, d *wl.Dump) error {
	return checkAckedPresentSkip(cr, k, d, nil)
}

func checkAckedPresentSkip(cr *crashRun, k int, d *wl.Dump, skip map[string]bool) error {
	rows := historyRows(cr.H)
	for bi, spec := range cr.H.Buckets {
		key := spec.Bucket().Key()
		if skip[key] {
			continue
		}
		bd := dumpFor(d, key)
		if spec.Variable {
			have := map[int64]int{}
			if bd != nil {
				for _, tg := range bd.Tag {
					have[tg]++
				}
			}
			for _, w := range rows {
				if w.bucket == bi && cr.acked(w.op, k) && have[w.tag] == 0 {
					return fmt.Errorf("bucket %s: record tag=%d (op %d row %d, t=%d.%09d) of an acknowledged write is missing after restart",
						key, w.tag, w.op, w.row, w.epoch, w.nanos)
				}
			}
			continue
		}
		got := map[int64]int64{}
		if bd != nil {
			for i, e := range bd.Epoch {
				got[e] = bd.Tag[i]
			}
		}
		slots := map[int64][]wrRow{}
		for _, w := range rows {
			if w.bucket == bi {
				slots[w.slot] = append(slots[w.slot], w)
			}
		}
		for slot, ws := range slots {
			last := -1
			for i, w := range ws {
				if cr.acked(w.op, k) {
					last = i
				}
			}
			if last < 0 {
				continue
			}
			allowed := map[int64]bool{ws[last].tag: true}
			for _, w := range ws[last+1:] {
				if cr.issued(w.op, k) {
					allowed[w.tag] = true
				}
			}
			g, ok := got[slot]
			if !ok {
				return fmt.Errorf("bucket %s: slot %d written by acknowledged op %d is missing after restart", key, slot, ws[last].op)
			}
			if !allowed[g] {
				return fmt.Errorf("bucket %s: slot %d holds tag %d (op %d) after restart; last acknowledged write was op %d (tag %d)",
					key, slot, g, g>>20-1, ws[last].op, ws[last].tag)
			}
		}
	}
	return nil
}

// needsReplay: at crash point k some acknowledged write's primary data is not
// yet (fully) written or not yet covered by a checkpoint, so recovery has work.
func (cr *crashRun) needsReplay(k int) bool {
	for op := range cr.Ack {
		if cr.H.Ops[op].Kind != "write" || !cr.acked(op, k) {
			continue
		}
		if !cr.covered(op, k) {
			return true
		}
	}
	// or an op in flight
	for op := range cr.Beg {
		if cr.issued(op, k) && !cr.acked(op, k) {
			return true
		}
	}
	return false
}

type crashSweepCfg struct {
	prop    string
	rec     *hx.Rec
	opts    histOpts
	oracle  func(cr *crashRun, k int, a, b *restartResult) error
	ntPoint func(cr *crashRun, k int) bool
}

func runCrashSweep(t *testing.T, cfg crashSweepCfg) {
	rec := cfg.rec
	if cr, r, ok := loadCrashReplay(); ok {
		defer cr.cleanup()
		sa, sb := splitSpecs(cr, r.K)
		a, b, _ := cr.materializeAndRestart(r.K, r.Variant, sa, sb, false)
		if err := cfg.oracle(cr, r.K, a, b); err != nil {
			t.Fatalf("replay crash point %d: %v", r.K, err)
		}
		return
	}
	rapid.Check(t, func(t *rapid.T) {
		h := genHistory(t, cfg.opts)
		cr, err := runTraced(h)
		if err != nil {
			t.Fatalf("traced run: %v", err)
		}
		defer cr.cleanup()
		for op, e := range cr.Err {
			t.Fatalf("write op %d was rejected: %s", op, e)
		}
		hkey := hx.Hash(histJSON(h))
		for _, k := range cr.Points {
			sa, sb := splitSpecs(cr, k)
			a, b, _ := cr.materializeAndRestart(k, nil, sa, sb, false)
			nt := ""
			if cfg.ntPoint(cr, k) {
				nt = fmt.Sprint(hkey, "/", k)
			}
			rec.Case(nt)
			if err := cfg.oracle(cr, k, a, b); err != nil {
				msg := fmt.Sprintf("crash point %d of %d (after %q, before %q): %v", k, len(cr.Events), evDesc(cr, k-1), evDesc(cr, k), err)
				cr.saveReplay(cfg.prop, k, nil, msg)
				t.Fatalf("%s\nhistory: %s", msg, histJSON(h))
			}
		}
		rec.Class("histories", 1)
		rec.Class(fmt.Sprintf("ops=%d", len(h.Ops)), 1)
		for _, op := range h.Ops {
			if op.Kind == "destroy" {
				rec.Class("history-with-destroy", 1)
				break
			}
		}
		rec.Sample(map[string]interface{}{"history": h, "events": len(cr.Events), "crash_points": len(cr.Points)})
		rec.Flush()
	})
	rec.Flush()
}

func evDesc(cr *crashRun, i int) string {
	if i < 0 || i >= len(cr.Events) {
		return "-"
	}
	return cr.Events[i].Describe()
}

func restartFailure(a *restartResult) string {
	if a == nil {
		return "no restart result"
	}
	s := a.Stderr
	if i := strings.Index(s, "panic:"); i >= 0 {
		s = s[i:]
	}
	if len(s) > 600 {
		s = s[:600]
	}
	return fmt.Sprintf("restart exited with status %d: %s", a.Exit, strings.TrimSpace(s))
}

// C01 Acknowledged writes survive a process crash.
func TestC01(t *testing.T) {
	rec := hx.R("C01")
	runCrashSweep(t, crashSweepCfg{
		prop: "C01", rec: rec,
		opts: histOpts{minOps: 3, maxOps: envInt("VERIF_MAXOPS", 6), varBias: 40, checkpoints: true, multiPart: true, sameInterval: 40},
		oracle: func(cr *crashRun, k int, a, b *restartResult) error {
			if !a.OK {
				if cr.kf03aPoint(k) && hx.KFOpen("KF-03a") {
					rec.Exclude("KF-03a")
					rec.KF("KF-03a", "restart fails after a crash between the in-place data rewrite and the index update of a variable-length interval")
					return nil
				}
				return fmt.Errorf("acknowledged data unavailable: %s", restartFailure(a))
			}
			for _, bd := range a.Dump.Buckets {
				if bd.Error != "" {
					return fmt.Errorf("bucket %s cannot be queried after restart: %s", bd.Key, bd.Error)
				}
			}
			return checkAckedPresent(cr, k, a.Dump)
		},
		ntPoint: func(cr *crashRun, k int) bool { return cr.needsReplay(k) },
	})
}

var _ = crashfs.EvWrite
