package props

import (
	"bytes"
	"fmt"
	"os"
	"os/exec"
	"path/filepath"
	"strings"
	"testing"

	"pgregory.net/rapid"

	"verifharness/crashfs"
	"verifharness/hx"
	"verifharness/wl"
)

// traceRestart runs mkrestart on root under strace and returns its file events.
func traceRestart(root string, specs []wl.BucketSpec) ([]crashfs.Event, *restartResult, error) {
	tmp := filepath.Dir(root)
	sp := filepath.Join(tmp, "specs-T.json")
	op := filepath.Join(tmp, "dump-T.json")
	trace := filepath.Join(tmp, "restart-trace.txt")
	wl.WriteJSON(sp, specs)
	os.Remove(op)
	cmd := exec.Command("strace", "-f", "-y", "-xx", "-s", "100000000", "-o", trace, "-e", "trace="+straceSyscalls,
		filepath.Join(binDir(), "mkrestart"), root, sp, op, "T")
	cmd.Env = append(os.Environ(), "GOGC=off", "GOMAXPROCS=1", "TZ=UTC")
	var errb bytes.Buffer
	cmd.Stderr = &errb
	err := cmd.Run()
	res := &restartResult{Stderr: tail(errb.String(), 3000)}
	if err != nil {
		res.Exit = 1
		if ee, ok := err.(*exec.ExitError); ok {
			res.Exit = ee.ExitCode()
		}
	} else {
		var d wl.Dump
		if e := wl.ReadJSON(op, &d); e == nil {
			res.OK, res.Dump = true, &d
		}
	}
	ev, perr := crashfs.ParseFile(trace, root)
	return ev, res, perr
}

// checkWALHygiene: after a completed start-up the root holds exactly the running
// instance's WAL and nothing else that looks like a WAL.
func checkWALHygiene(d *wl.Dump) error {
	own, other := 0, []string{}
	for _, f := range d.WALFiles {
		if strings.HasPrefix(f, "OWN:") {
			own++
		} else if strings.HasSuffix(f, ".tmp") {
			// a WAL set aside by the server (e.g. one that was already replayed when the crash hit
			// before its deletion) is not a WAL "that still needs replay"; whether it held data that
			// was needed is decided by the data relations, not here
			continue
		} else {
			other = append(other, f)
		}
	}
	if own != 1 || len(other) > 0 {
		return fmt.Errorf("after a completed start-up the root holds %d own WAL file(s) and left-over files %v", own, other)
	}
	return nil
}

// C34 WAL files are replayed once and never discarded while needed.
func TestC34(t *testing.T) {
	rec := hx.R("C34")
	maxL1 := envInt("VERIF_L1POINTS", 5)
	rapid.Check(t, func(t *rapid.T) {
		h := genHistory(t, histOpts{minOps: 3, maxOps: envInt("VERIF_MAXOPS", 5), varBias: 45, checkpoints: true, multiPart: true, sameInterval: 30})
		cr, err := runTraced(h)
		if err != nil {
			t.Fatalf("traced run: %v", err)
		}
		defer cr.cleanup()
		hkey := hx.Hash(histJSON(h))
		// first-level crash points where replay has work, excluding the KF-03a window
		var cand []int
		for _, k := range cr.Points {
			if cr.needsReplay(k) && !cr.kf03aPoint(k) {
				sa, _ := splitSpecs(cr, k)
				if len(sa) > 0 {
					cand = append(cand, k)
				}
			}
		}
		if len(cand) == 0 {
			return
		}
		picks := map[int]bool{cand[len(cand)-1]: true}
		for len(picks) < maxL1 && len(picks) < len(cand) {
			picks[rapid.SampledFrom(cand).Draw(t, "k1")] = true
		}
		addLeftovers := rapid.Bool().Draw(t, "syntheticLeftovers")
		const setAside = "WALFile.1000000000000000003.walfile.tmp"
		keptAside := func(d *wl.Dump) error {
			if !addLeftovers {
				return nil
			}
			for _, f := range d.WALFiles {
				if f == setAside {
					return nil
				}
			}
			return fmt.Errorf("the WAL file set aside by an earlier start-up (%s) was picked up again: files now %v", setAside, d.WALFiles)
		}
		for k1 := range picks {
			sa, _ := splitSpecs(cr, k1)
			base := append([]crashfs.Event{}, cr.Events[:k1]...)
			if addLeftovers {
				// synthetic left-over WAL files: empty, and shorter than a status message
				base = append(base,
					crashfs.Event{Kind: crashfs.EvCreate, Path: "WALFile.1000000000000000001.walfile"},
					crashfs.Event{Kind: crashfs.EvCreate, Path: "WALFile.1000000000000000002.walfile"},
					crashfs.Event{Kind: crashfs.EvWrite, Path: "WALFile.1000000000000000002.walfile", Off: 0, Data: []byte{2, 1, 1, 0, 0}})
				// and a file that an earlier start-up set aside as unreplayable (*.walfile.tmp): a copy of
				// the crashed instance's WAL under that name. It must never be picked up again.
				for _, e := range cr.Events[:k1] {
					if strings.HasSuffix(e.Path, ".walfile") && (e.Kind == crashfs.EvCreate || e.Kind == crashfs.EvWrite || e.Kind == crashfs.EvTruncate) {
						e.Path = setAside
						base = append(base, e)
					}
				}
			}
			dir := hx.ScratchDir("c34")
			root := filepath.Join(dir, "root")
			if err := crashfs.Materialize(base, len(base), nil, root); err != nil {
				t.Fatalf("materialize: %v", err)
			}
			ev2, res2, perr := traceRestart(root, sa)
			os.RemoveAll(dir)
			if perr != nil {
				t.Fatalf("parse restart trace: %v", perr)
			}
			fail := func(k2 int, msg string) {
				full := fmt.Sprintf("first-level crash point %d (after %q), second-level crash point %d of %d (after %q): %s", k1, evDesc(cr, k1-1), k2, len(ev2), descOf(ev2, k2-1), msg)
				hx.SaveReplay("C34", map[string]interface{}{"history": h, "k1": k1, "k2": k2, "synthetic_leftovers": addLeftovers, "failure": full})
				t.Fatalf("%s\nhistory: %s", full, histJSON(h))
			}
			if !res2.OK {
				fail(-1, "restart fails: "+restartFailure(res2))
			}
			if err := checkWALHygiene(res2.Dump); err != nil {
				fail(len(ev2), err.Error())
			}
			if err := keptAside(res2.Dump); err != nil {
				fail(len(ev2), err.Error())
			}
			// trace invariants of the restart itself
			own := ""
			for i, e := range ev2 {
				switch {
				case e.Kind == crashfs.EvCreate && strings.HasSuffix(e.Path, ".walfile") && own == "":
					own = e.Path
				case (e.Kind == crashfs.EvUnlink || e.Kind == crashfs.EvRename) && e.Path == own:
					fail(i, "the running instance's own WAL file is unlinked/renamed during start-up")
				case e.Kind == crashfs.EvUnlink && strings.HasSuffix(e.Path, ".walfile") && e.Path != own:
					// a left-over WAL is deleted only when no primary-file write of its replay is still unsynced
					joined := append(append([]crashfs.Event{}, base...), ev2[:i]...)
					for _, pi := range crashfs.Pending(joined, len(joined)) {
						if strings.HasSuffix(joined[pi].Path, ".bin") && pi >= len(base) {
							fail(i, fmt.Sprintf("left-over WAL %s deleted while the replayed write %q is not yet synced", e.Path, joined[pi].Describe()))
						}
					}
				}
			}
			// every prefix of the restart's mutating events, then a third and a fourth start-up
			for _, k2 := range crashfs.CrashPoints(ev2) {
				joined := append(append([]crashfs.Event{}, base...), ev2[:k2]...)
				if hx.KFOpen("KF-03a") && k2 < len(ev2) && kf03aPointIn(append(append([]crashfs.Event{}, joined...), ev2[k2]), len(joined)) {
					rec.Exclude("KF-03a") // the replay's own in-place rewrite is interrupted: same window
					continue
				}
				dir3 := hx.ScratchDir("c34b")
				root3 := filepath.Join(dir3, "root")
				if err := crashfs.Materialize(joined, len(joined), nil, root3); err != nil {
					t.Fatalf("materialize: %v", err)
				}
				r3 := restartOn(root3, sa, "A")
				nt := ""
				// non-trivial: second-level crash between REPLAYINPROCESS and REPLAYED status of the old WAL
				inReplay := false
				for i := 0; i < k2; i++ {
					e := ev2[i]
					if e.Kind == crashfs.EvWrite && strings.HasSuffix(e.Path, ".walfile") && e.Path != own && e.Off == 0 && len(e.Data) == 11 {
						inReplay = e.Data[2] == 3 // REPLAYINPROCESS
					}
				}
				if inReplay {
					nt = fmt.Sprint(hkey, "/", k1, "/", k2, addLeftovers)
				}
				rec.Case(nt)
				if !r3.OK {
					os.RemoveAll(dir3)
					fail(k2, "third start-up fails: "+restartFailure(r3))
				}
				if err := checkWALHygiene(r3.Dump); err != nil {
					os.RemoveAll(dir3)
					fail(k2, err.Error())
				}
				for _, bd := range r3.Dump.Buckets {
					if bd.Error != "" {
						os.RemoveAll(dir3)
						fail(k2, fmt.Sprintf("bucket %s unreadable: %s", bd.Key, bd.Error))
					}
				}
				if err := checkAckedPresent(cr, k1, r3.Dump); err != nil {
					os.RemoveAll(dir3)
					fail(k2, err.Error())
				}
				cr.l2PrimaryWritten = false
				for i := 0; i < k2; i++ {
					if e := ev2[i]; e.Kind == crashfs.EvWrite && strings.HasSuffix(e.Path, ".bin") && e.Off >= 37024 {
						cr.l2PrimaryWritten = true
					}
				}
				err := checkNoPhantomsMax(cr, k1, []*wl.Dump{r3.Dump}, rec, 3)
				cr.l2PrimaryWritten = false
				if err != nil {
					os.RemoveAll(dir3)
					fail(k2, err.Error())
				}
				r4 := restartOn(root3, sa, "A")
				os.RemoveAll(dir3)
				if !r4.OK {
					fail(k2, "fourth start-up fails: "+restartFailure(r4))
				}
				if d := dumpsEqual(r3.Dump, r4.Dump); d != "" {
					fail(k2, "a further restart changes the data (a WAL was replayed again): "+d)
				}
				if err := checkWALHygiene(r4.Dump); err != nil {
					fail(k2, err.Error())
				}
				if err := keptAside(r4.Dump); err != nil {
					fail(k2, err.Error())
				}
			}
			rec.Class("first-level-points", 1)
		}
		rec.Sample(map[string]interface{}{"history": h, "first_level_points": len(picks), "synthetic_leftovers": addLeftovers})
		rec.Flush()
	})
	rec.Flush()
}

func descOf(ev []crashfs.Event, i int) string {
	if i < 0 || i >= len(ev) {
		return "-"
	}
	return ev[i].Describe()
}
