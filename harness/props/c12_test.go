package props

import (
	"fmt"
	"testing"

	"github.com/alpacahq/marketstore/v4/frontend"
	"pgregory.net/rapid"

	"verifharness/hx"
)

// C12 Row limits return the first or last N rows of the range (metamorphic:
// limited query vs. the same query without a limit).
func TestC12(t *testing.T) {
	rec := hx.R("C12")
	rapid.Check(t, func(t *rapid.T) {
		variable := rapid.Bool().Draw(t, "variable")
		sc := buildStore(t, rec, storeOpts{variable: variable, types: hx.NumericTypes, maxReq: 3, maxRows: 30})
		defer sc.close()
		cands := boundCandidates(sc)
		nq := rapid.IntRange(3, 8).Draw(t, "nqueries")
		for q := 0; q < nq; q++ {
			a, b := hx.WideStart.UnixNano(), hx.WideEnd.UnixNano()
			if rapid.IntRange(0, 3).Draw(t, "ranged") != 0 {
				a = rapid.SampledFrom(cands).Draw(t, "start")
				b = rapid.SampledFrom(cands).Draw(t, "end")
				if a > b {
					a, b = b, a
				}
			}
			base, err := sc.in.Query(sc.b, nsTime(a), nsTime(b), 0, false, nil)
			if err != nil {
				t.Fatalf("unlimited query [%d,%d]: %v", a, b, err)
			}
			cnt := base.Len()
			n := rapid.SampledFrom([]int{1, 2, 3, cnt - 1, cnt, cnt + 1, 10*cnt + 1, cnt / 2}).Draw(t, "N")
			if n < 1 {
				n = 1
			}
			fromStart := rapid.Bool().Draw(t, "fromStart")
			viaAPI := rapid.Bool().Draw(t, "viaDataService")
			var got *hx.Rows
			if viaAPI {
				es, en, ee, een := floorDiv(a, 1e9), a-floorDiv(a, 1e9)*1e9, floorDiv(b, 1e9), b-floorDiv(b, 1e9)*1e9
				res, err := sc.in.QueryAPI(frontend.QueryRequest{Destination: sc.b.Key(), EpochStart: &es, EpochStartNanos: &en,
					EpochEnd: &ee, EpochEndNanos: &een, LimitRecordCount: &n, LimitFromStart: &fromStart})
				if err != nil {
					t.Fatalf("DataService.Query limit %d: %v", n, err)
				}
				got = res[sc.b.Key()]
				if got == nil {
					got = &hx.Rows{}
				}
			} else {
				got, err = sc.in.Query(sc.b, nsTime(a), nsTime(b), n, fromStart, nil)
				if err != nil {
					t.Fatalf("limited query [%d,%d] N=%d fromStart=%v: %v", a, b, n, fromStart, err)
				}
			}
			var idx []int
			if n >= cnt {
				for i := 0; i < cnt; i++ {
					idx = append(idx, i)
				}
			} else if fromStart {
				for i := 0; i < n; i++ {
					idx = append(idx, i)
				}
			} else {
				for i := cnt - n; i < cnt; i++ {
					idx = append(idx, i)
				}
			}
			want := subRows(base, idx)
			if err := sameRows(got, want); err != nil {
				// KF-12a: for variable-length buckets the limit is applied to intervals before the
				// range is trimmed to full precision
				if variable && hx.KFOpen("KF-12a") && got.Len() < want.Len() && isSubsequenceAligned(got, want, fromStart) {
					rec.KF("KF-12a", "limited variable-length query returns fewer than N rows although more are in range")
					rec.Exclude("KF-12a")
					rec.Case("", "kf-12a")
					continue
				}
				t.Fatalf("%s bucket %s, range [%d, %d] ns, N=%d fromStart=%v viaDataService=%v (unlimited query has %d rows): %v",
					map[bool]string{true: "variable", false: "fixed"}[variable], sc.b.TF, a, b, n, fromStart, viaAPI, cnt, err)
			}
			nt := ""
			cls := []string{fmt.Sprintf("variable=%v", variable), fmt.Sprintf("fromStart=%v", fromStart), fmt.Sprintf("viaDataService=%v", viaAPI)}
			if n < cnt {
				cls = append(cls, "N<rows")
				years := map[int]bool{}
				gap := false
				for i := 0; i < cnt; i++ {
					years[hx.YearOf(base.Epoch[i])] = true
					if i > 0 && hx.SlotStart(base.Epoch[i], sc.b.TFDur())-hx.SlotStart(base.Epoch[i-1], sc.b.TFDur()) > int64(sc.b.TFDur().Seconds()) {
						gap = true
					}
				}
				if len(years) >= 2 || gap {
					nt = fmt.Sprint(variable, sc.b.TF, a, b, n, fromStart, hx.Hash(sc.all.Epoch, sc.all.Nanos))
					rec.Sample(map[string]interface{}{"variable": variable, "tf": sc.b.TF, "rows_in_range": cnt, "N": n,
						"from_start": fromStart, "year_files": len(years), "has_gap": gap, "via_dataservice": viaAPI})
				}
			}
			rec.Case(nt, cls...)
		}
	})
	rec.Flush()
}

// isSubsequenceAligned: got is a prefix (fromStart) or suffix of want.
func isSubsequenceAligned(got, want *hx.Rows, fromStart bool) bool {
	n := got.Len()
	if n > want.Len() {
		return false
	}
	var idx []int
	if fromStart {
		for i := 0; i < n; i++ {
			idx = append(idx, i)
		}
	} else {
		for i := want.Len() - n; i < want.Len(); i++ {
			idx = append(idx, i)
		}
	}
	return sameRows(got, subRows(want, idx)) == nil
}
