package props

import (
	"fmt"
	"math"
	"testing"

	"github.com/alpacahq/marketstore/v4/sqlparser"
	"github.com/alpacahq/marketstore/v4/utils/io"
	"pgregory.net/rapid"

	"verifharness/hx"
)

// C23 Scalar aggregates and gap detection are correct.
func TestC23(t *testing.T) {
	rec := hx.R("C23")
	runner := sqlparser.NewDefaultAggRunner(nil)
	tbk := *io.NewTimeBucketKey("T/1Min/X")
	rapid.Check(t, func(t *rapid.T) {
		fn := rapid.SampledFrom([]string{"count", "min", "max", "avg", "gap"}).Draw(t, "fn")
		n := rapid.OneOf(rapid.Just(0), rapid.Just(1), rapid.IntRange(0, 5), rapid.IntRange(2, 60), rapid.IntRange(2, 1000)).Draw(t, "n")
		cs := io.NewColumnSeries()
		if fn == "gap" {
			thr := rapid.SampledFrom([]struct {
				s   string
				sec int64
			}{{"1Sec", 1}, {"30Sec", 30}, {"1Min", 60}, {"5Min", 300}, {"1H", 3600}, {"1D", 86400}, {"90Sec", 90}}).Draw(t, "threshold")
			ep := make([]int64, n)
			cur := rapid.Int64Range(1500000000, 1700000000).Draw(t, "start")
			for i := range ep {
				ep[i] = cur
				cur += rapid.OneOf(rapid.SampledFrom([]int64{thr.sec, thr.sec - 1, thr.sec + 1, 0, 1}), rapid.Int64Range(0, 3*thr.sec)).Draw(t, "step")
			}
			cs.AddColumn("Epoch", ep)
			cs.AddColumn("V", make([]float32, n))
			out, err := runner.Run([]string{fmt.Sprintf("gap('%s')", thr.s)}, cs, tbk)
			if err != nil {
				t.Fatalf("gap: %v", err)
			}
			gs, _ := out.GetColumn("Epoch").([]int64)
			ge, _ := out.GetColumn("End").([]int64)
			gl, _ := out.GetColumn("Length").([]int64)
			type pair struct{ a, b int64 }
			var want []pair
			for i := 0; i+1 < n; i++ {
				if ep[i+1]-ep[i] > thr.sec {
					want = append(want, pair{ep[i], ep[i+1]})
				}
			}
			if len(gs) != len(want) || len(ge) != len(want) || len(gl) != len(want) {
				t.Fatalf("gap('%s') over %d rows: %d gaps reported, want %d", thr.s, n, len(gs), len(want))
			}
			for i, w := range want {
				if gs[i] != w.a || ge[i] != w.b || gl[i] != w.b-w.a {
					t.Fatalf("gap('%s'): gap %d = (%d,%d,len %d), want (%d,%d,len %d)", thr.s, i, gs[i], ge[i], gl[i], w.a, w.b, w.b-w.a)
				}
			}
			nt := ""
			if len(want) >= 1 && len(want) < n-1 {
				nt = fmt.Sprint("gap", thr.s, hx.Hash(fmt.Sprint(ep)))
				rec.Sample(map[string]interface{}{"fn": "gap", "threshold": thr.s, "rows": n, "gaps": len(want)})
			}
			rec.Case(nt, "fn:gap")
			return
		}
		typ := rapid.SampledFrom(hx.NumericTypes).Draw(t, "type")
		var col interface{}
		switch typ {
		case io.FLOAT32:
			v := rapid.SliceOfN(rapid.OneOf(rapid.Float32Range(-1000, 1000), rapid.SampledFrom([]float32{0, -0.0, math.MaxFloat32, -math.MaxFloat32, 1e-30, 16777216, 16777217})), n, n).Draw(t, "f32")
			col = v
		case io.FLOAT64:
			v := rapid.SliceOfN(rapid.OneOf(rapid.Float64Range(-1e6, 1e6), rapid.SampledFrom([]float64{0, 1e300, -1e300, 16777217, 0.1})), n, n).Draw(t, "f64")
			col = v
		default:
			col = hx.GenColumnBits(t, typ, n, "v")
		}
		cs.AddColumn("Epoch", make([]int64, n))
		cs.AddColumn("V", col)
		out, err := runner.Run([]string{fn + "(V)"}, cs, tbk)
		if err != nil {
			t.Fatalf("%s(V) over %d values of %s: %v", fn, n, hx.TypeStr[typ], err)
		}
		// values as single-precision numbers
		vals := make([]float32, n)
		for i := range vals {
			f, iv, u, kind := numAt(col, i)
			switch kind {
			case "float":
				vals[i] = float32(f)
			case "int":
				vals[i] = float32(iv)
			default:
				vals[i] = float32(u)
			}
		}
		extremeNotFirst := false
		switch fn {
		case "count":
			c, ok := out.GetColumn("Count").([]int64)
			if !ok || len(c) != 1 || c[0] != int64(n) {
				t.Fatalf("count over %d rows = %v", n, out.GetColumn("Count"))
			}
		case "min", "max":
			name := map[string]string{"min": "Min", "max": "Max"}[fn]
			if n == 0 {
				break // the property defines no minimum of nothing; only "no panic"
			}
			g, ok := out.GetColumn(name).([]float32)
			if !ok || len(g) != 1 {
				t.Fatalf("%s: result column %v", fn, out.GetColumn(name))
			}
			want, wi := vals[0], 0
			for i, v := range vals {
				if (fn == "min" && v < want) || (fn == "max" && v > want) {
					want, wi = v, i
				}
			}
			extremeNotFirst = wi != 0
			if !f32eq(g[0], want) {
				t.Fatalf("%s over %d values of type %s = %v, want %v", fn, n, hx.TypeStr[typ], g[0], want)
			}
		case "avg":
			if n == 0 {
				break
			}
			g, ok := out.GetColumn("Avg").([]float64)
			if !ok || len(g) != 1 {
				t.Fatalf("avg: result column %v", out.GetColumn("Avg"))
			}
			sum := 0.0
			for _, v := range vals {
				sum += float64(v)
			}
			want := sum / float64(n)
			tol := math.Abs(want)*1e-12*float64(n) + 1e-300
			if math.IsInf(want, 0) || math.IsNaN(want) {
				if !(math.IsInf(g[0], 0) || math.IsNaN(g[0])) {
					t.Fatalf("avg over %d values of type %s = %v, want %v", n, hx.TypeStr[typ], g[0], want)
				}
			} else if math.Abs(g[0]-want) > tol {
				t.Fatalf("avg over %d values of type %s = %v, want %v", n, hx.TypeStr[typ], g[0], want)
			}
			extremeNotFirst = n >= 2
		}
		nt := ""
		if n >= 2 && extremeNotFirst {
			nt = fmt.Sprint(fn, typ, hx.Hash(fmt.Sprint(vals)))
			rec.Sample(map[string]interface{}{"fn": fn, "type": hx.TypeStr[typ], "rows": n})
		}
		rec.Case(nt, "fn:"+fn, "type:"+hx.TypeStr[typ], fmt.Sprintf("empty=%v", n == 0))
	})
	rec.Flush()
}
