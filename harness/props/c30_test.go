package props

import (
	"fmt"
	"math/rand"
	"testing"
	"time"
	_ "time/tzdata"

	"github.com/alpacahq/marketstore/v4/utils"
	"github.com/alpacahq/marketstore/v4/utils/io"

	"verifharness/hx"
)

var c30Zones = []string{"UTC", "America/New_York", "Asia/Tokyo", "Asia/Kolkata", "Australia/Lord_Howe", "Europe/Moscow", "America/Sao_Paulo", "Europe/London"}

type c30Case struct {
	Zone string `json:"zone"`
	TF   string `json:"tf"`
	Unix int64  `json:"unix"`
	Ns   int64  `json:"ns"`
	Year int    `json:"year,omitempty"`
	Idx  int64  `json:"index,omitempty"`
	Msg  string `json:"failure"`
}

// c30CheckTime checks one timestamp: slot round trip, year, data-area bounds.
// It returns (finding id, message) - finding id "" for a plain violation.
func c30CheckTime(loc *time.Location, tfs string, t time.Time) (string, string) {
	tf := hx.TFDuration(tfs)
	utils.InstanceConfig.Timezone = loc
	tl := t.In(loc)
	idx := io.TimeToIndex(t, tf)
	year := int16(tl.Year())
	start := io.IndexToTime(idx, tf, year)
	next := io.IndexToTime(idx+1, tf, year)
	if start.After(t) || !t.Before(next) {
		return "", fmt.Sprintf("timestamp %s maps to slot %d = [%s, %s) which does not contain it", tl.Format(time.RFC3339Nano), idx, start.Format(time.RFC3339), next.Format(time.RFC3339))
	}
	if start.In(loc).Year() != tl.Year() {
		return "", fmt.Sprintf("slot %d of %s starts in year %d, timestamp is in %d", idx, tl.Format(time.RFC3339), start.In(loc).Year(), tl.Year())
	}
	if back := io.TimeToIndex(start, tf); back != idx {
		return "", fmt.Sprintf("slot %d starts at %s, which maps back to slot %d", idx, start.Format(time.RFC3339), back)
	}
	// every slot lies inside the data area of the year file (record length 24: the smallest possible)
	for _, rl := range []int32{24, 16, 4000} {
		off := io.IndexToOffset(idx, rl)
		size := io.FileSize(tf, int(year), int(rl))
		if off < io.Headersize {
			if tfs == "1D" && idx == 0 {
				return "KF-08a", fmt.Sprintf("1D slot of %s has index 0 and file offset %d, inside the header (%d bytes)", tl.Format("2006-01-02"), off, io.Headersize)
			}
			return "", fmt.Sprintf("slot %d of %s: file offset %d lies inside the header", idx, tl.Format(time.RFC3339), off)
		}
		if off > size-int64(rl) {
			return "KF-30a", fmt.Sprintf("slot %d of %s (zone %s, %s): file offset %d + record %d exceeds the year file size %d", idx, tl.Format(time.RFC3339), loc, tfs, off, rl, size)
		}
	}
	return "", ""
}

// C30 Interval indexing is a bijection onto a year's slots.
func TestC30(t *testing.T) {
	rec := hx.R("C30")
	shard, nsh := envInt("VERIF_SHARD", 0), envInt("VERIF_NSHARDS", 1)
	defer func() { utils.InstanceConfig.Timezone = time.UTC }()
	locs := map[string]*time.Location{}
	for _, z := range c30Zones {
		l, err := time.LoadLocation(z)
		if err != nil {
			t.Fatalf("zone %s: %v", z, err)
		}
		locs[z] = l
	}
	var rc c30Case
	if hx.LoadReplay(&rc) {
		id, msg := c30CheckTime(locs[rc.Zone], rc.TF, time.Unix(rc.Unix, rc.Ns))
		if msg != "" && !(id != "" && hx.KFOpen(id)) {
			t.Fatalf("replay: %s", msg)
		}
		return
	}
	report := func(c c30Case, id string) {
		if id != "" && hx.KFOpen(id) {
			rec.KF(id, c.Msg)
			rec.Exclude(id)
			return
		}
		hx.SaveReplay("C30", c)
		rec.Flush()
		t.Fatalf("%s", c.Msg)
	}
	rng := rand.New(rand.NewSource(int64(envInt("VERIF_SEED", 1))*104729 + int64(shard)))
	nRand := 20000
	years := []int{2014, 2020}
	if thorough() {
		nRand = 2000000
		years = []int{1999, 2011, 2014, 2016, 2020, 2021}
	}
	var evals, nontrivial int64
	ntRecorded := 0
	// (1) random timestamps 1990-2040 plus points around year edges and DST switches
	for _, z := range c30Zones {
		loc := locs[z]
		// transition instants of this zone in the range (found by scanning offsets day by day)
		var hot []int64
		for y := 1990; y <= 2040; y++ {
			hot = append(hot, time.Date(y, 1, 1, 0, 0, 0, 0, loc).Unix())
		}
		prevOff := -1 << 30
		for d := time.Date(2009, 1, 1, 0, 0, 0, 0, time.UTC); d.Year() < 2023; d = d.Add(24 * time.Hour) {
			_, off := d.In(loc).Zone()
			if prevOff != -1<<30 && off != prevOff {
				// refine to the hour
				for h := d.Add(-24 * time.Hour); h.Before(d.Add(time.Hour)); h = h.Add(30 * time.Minute) {
					_, o2 := h.In(loc).Zone()
					if o2 == off {
						hot = append(hot, h.Unix())
						break
					}
				}
			}
			prevOff = off
		}
		for _, tfs := range hx.DiskTimeframes {
			tfSec := int64(hx.TFDuration(tfs).Seconds())
			n := nRand / len(c30Zones) / len(hx.DiskTimeframes)
			for i := 0; i < n; i++ {
				var u int64
				nt := false
				if i%3 == 0 && len(hot) > 0 {
					u = hot[rng.Intn(len(hot))] + (rng.Int63n(5)-2)*tfSec + rng.Int63n(3) - 1
					nt = true
				} else {
					u = 631152000 + rng.Int63n(1609459200) // 1990 .. 2041
				}
				ts := time.Unix(u, rng.Int63n(1e9))
				evals++
				if nt && ntRecorded < 20000 {
					// distinct by (zone, timeframe, instant); capped per shard to keep the evidence small
					rec.NonTrivial(fmt.Sprint(z, tfs, ts.UnixNano()))
					ntRecorded++
				}
				if id, msg := c30CheckTime(loc, tfs, ts); msg != "" {
					report(c30Case{Zone: z, TF: tfs, Unix: ts.Unix(), Ns: int64(ts.Nanosecond()), Msg: msg}, id)
				}
			}
		}
	}
	// (2) full-year sweeps: every slot of (zone, timeframe >= 1Min, year): index -> time -> index,
	//     strictly increasing starts, same year; shards split the (zone, tf, year) triples
	triple := 0
	for _, z := range c30Zones {
		loc := locs[z]
		utils.InstanceConfig.Timezone = loc
		for _, tfs := range hx.DiskTimeframes[3:] {
			tf := hx.TFDuration(tfs)
			for _, y := range years {
				triple++
				if triple%nsh != shard {
					continue
				}
				y0 := time.Date(y, 1, 1, 0, 0, 0, 0, loc)
				y1 := time.Date(y+1, 1, 1, 0, 0, 0, 0, loc)
				first, last := io.TimeToIndex(y0, tf), io.TimeToIndex(y1.Add(-time.Nanosecond), tf)
				prev := time.Time{}
				for idx := first; idx <= last; idx++ {
					st := io.IndexToTime(idx, tf, int16(y))
					evals++
					if back := io.TimeToIndex(st, tf); back != idx || st.In(loc).Year() != y {
						msg := fmt.Sprintf("zone %s %s year %d: slot %d starts at %s (year %d) which maps back to slot %d", z, tfs, y, idx, st.Format(time.RFC3339), st.In(loc).Year(), back)
						report(c30Case{Zone: z, TF: tfs, Unix: st.Unix(), Year: y, Idx: idx, Msg: msg}, "")
					}
					if !prev.IsZero() && !st.After(prev) {
						msg := fmt.Sprintf("zone %s %s year %d: slot %d starts at %s, not after slot %d (%s): two slots for one interval", z, tfs, y, idx, st.Format(time.RFC3339), idx-1, prev.Format(time.RFC3339))
						report(c30Case{Zone: z, TF: tfs, Unix: st.Unix(), Year: y, Idx: idx, Msg: msg}, "")
					}
					prev = st
				}
				// the last slot must fit into the file
				if id, msg := c30CheckTime(loc, tfs, y1.Add(-time.Nanosecond)); msg != "" {
					report(c30Case{Zone: z, TF: tfs, Unix: y1.Add(-time.Nanosecond).Unix(), Ns: 999999999, Msg: msg}, id)
				}
				rec.Class("full-year-sweep:"+z, 1)
				nontrivial++
			}
		}
	}
	rec.Evaluations(evals)
	rec.AddNT(nontrivial)
	rec.Sample(map[string]interface{}{"zone": "America/New_York", "tf": "1H", "timestamp": "2021-11-07T01:30:00-04:00 (repeated hour)",
		"index": func() int64 {
			utils.InstanceConfig.Timezone = locs["America/New_York"]
			return io.TimeToIndex(time.Unix(1636263000, 0), time.Hour)
		}()})
	utils.InstanceConfig.Timezone = time.UTC
	rec.Flush()
}
