package props

import (
	"fmt"
	"math"
	"os"
	"strings"
	"testing"

	"github.com/alpacahq/marketstore/v4/utils/io"
	"pgregory.net/rapid"

	"verifharness/hx"
)

// numeric value of element i of a typed column as (float64 value, int64 value, uint64 value, kind)
func numAt(col interface{}, i int) (f float64, n int64, u uint64, kind string) {
	switch c := col.(type) {
	case []int8:
		return float64(c[i]), int64(c[i]), uint64(c[i]), "int"
	case []int16:
		return float64(c[i]), int64(c[i]), uint64(c[i]), "int"
	case []int32:
		return float64(c[i]), int64(c[i]), uint64(c[i]), "int"
	case []int64:
		return float64(c[i]), c[i], uint64(c[i]), "int"
	case []uint8:
		return float64(c[i]), int64(c[i]), uint64(c[i]), "uint"
	case []uint16:
		return float64(c[i]), int64(c[i]), uint64(c[i]), "uint"
	case []uint32:
		return float64(c[i]), int64(c[i]), uint64(c[i]), "uint"
	case []uint64:
		return float64(c[i]), int64(c[i]), c[i], "uint"
	case []float32:
		return float64(c[i]), 0, 0, "float"
	case []float64:
		return c[i], 0, 0, "float"
	}
	panic(fmt.Sprintf("numAt %T", col))
}

func intRange(t io.EnumElementType) (lo, hi float64) {
	switch t {
	case io.BYTE:
		return math.MinInt8, math.MaxInt8
	case io.INT16:
		return math.MinInt16, math.MaxInt16
	case io.INT32:
		return math.MinInt32, math.MaxInt32
	case io.INT64:
		return -9.2e18, 9.2e18
	case io.UINT8:
		return 0, math.MaxUint8
	case io.UINT16:
		return 0, math.MaxUint16
	case io.UINT32:
		return 0, math.MaxUint32
	case io.UINT64:
		return 0, 1.8e19
	}
	return 0, 0
}

// expectedConv returns the acceptable stored byte patterns of value i of col
// converted to dst by standard numeric conversion, or nil when Go leaves the
// conversion implementation-defined (out-of-range float -> integer, NaN).
func expectedConv(col interface{}, i int, dst io.EnumElementType) [][]byte {
	f, n, u, kind := numAt(col, i)
	one := func(v interface{}) []byte { return hx.ColBytes(v) }
	isFloatDst := dst == io.FLOAT32 || dst == io.FLOAT64
	if isFloatDst {
		var alts [][]byte
		switch kind {
		case "float":
			if dst == io.FLOAT32 {
				alts = append(alts, one([]float32{float32(f)}))
			} else {
				alts = append(alts, one([]float64{f}))
			}
		case "int":
			if dst == io.FLOAT32 {
				alts = append(alts, one([]float32{float32(n)}), one([]float32{float32(float64(n))}))
			} else {
				alts = append(alts, one([]float64{float64(n)}))
			}
		case "uint":
			if dst == io.FLOAT32 {
				alts = append(alts, one([]float32{float32(u)}), one([]float32{float32(float64(u))}))
			} else {
				alts = append(alts, one([]float64{float64(u)}))
			}
		}
		return alts
	}
	// integer destination
	var iv int64
	var uv uint64
	switch kind {
	case "float":
		lo, hi := intRange(dst)
		if math.IsNaN(f) || math.Trunc(f) < lo || math.Trunc(f) > hi {
			return nil // implementation-defined in Go
		}
		iv, uv = int64(f), uint64(int64(f))
		if f >= 0 {
			uv = uint64(f)
			iv = int64(uv)
		}
	case "int":
		iv, uv = n, uint64(n)
	case "uint":
		iv, uv = int64(u), u
	}
	switch dst {
	case io.BYTE:
		return [][]byte{one([]int8{int8(iv)})}
	case io.INT16:
		return [][]byte{one([]int16{int16(iv)})}
	case io.INT32:
		return [][]byte{one([]int32{int32(iv)})}
	case io.INT64:
		return [][]byte{one([]int64{iv})}
	case io.UINT8:
		return [][]byte{one([]uint8{uint8(uv)})}
	case io.UINT16:
		return [][]byte{one([]uint16{uint16(uv)})}
	case io.UINT32:
		return [][]byte{one([]uint32{uint32(uv)})}
	case io.UINT64:
		return [][]byte{one([]uint64{uv})}
	}
	return nil
}

// genNumericValues draws a column of typ with value classes (min, max, 0, small, fractions, huge).
func genNumericValues(t *rapid.T, typ io.EnumElementType, n int, label string) interface{} {
	switch typ {
	case io.FLOAT32:
		vals := rapid.SliceOfN(rapid.OneOf(rapid.SampledFrom([]float64{0, -0.0, 1, -1, 0.5, -2.75, 127, 128, 255, 256, 65535.9, 1e9, -1e9, 3e38, 1e-30}),
			rapid.Float64Range(-70000, 70000), rapid.Float64Range(-1e12, 1e12)), n, n).Draw(t, label)
		o := make([]float32, n)
		for i, v := range vals {
			o[i] = float32(v)
		}
		return o
	case io.FLOAT64:
		vals := rapid.SliceOfN(rapid.OneOf(rapid.SampledFrom([]float64{0, 1, -1, 0.5, -2.75, 127.9, 128, 255, 256, 32767.5, 65536, 2147483647, 2147483648, 4294967295.5, 1e18, -1e18, 1e300, 16777217}),
			rapid.Float64Range(-70000, 70000), rapid.Float64Range(-1e15, 1e15)), n, n).Draw(t, label)
		return vals
	}
	return hx.GenColumnBits(t, typ, n, label)
}

// c14PairSweep is the stratified part of C14: EVERY ordered pair (sent type, bucket type) of the
// ten numeric wire types, with the edge values of the sent type (0, 1, sign-bit and all-ones
// patterns of every width, float specials, fractions), written through WriteCSM and read back.
// The 100 pairs are divided among the shards; the random part below covers multi-bucket requests
// and the other edits.
func c14PairSweep(t *testing.T, rec *hx.Rec) {
	shard, nsh := envInt("VERIF_SHARD", 0), envInt("VERIF_NSHARDS", 1)
	root := hx.ScratchDir("c14s")
	defer os.RemoveAll(root)
	in := hx.NewInst(root, hx.InstOpts{})
	defer in.Close()
	base := int64(1583020800)
	pi := 0
	for _, src := range hx.NumericTypes {
		for _, dst := range hx.NumericTypes {
			pi++
			if pi%nsh != shard%nsh {
				continue
			}
			var col interface{}
			if src == io.FLOAT32 || src == io.FLOAT64 {
				vals := []float64{0, 1, -1, 0.5, -2.75, 127, 127.9, 128, 255, 256, 32767.5, 65535.9, 65536, 2147483647, 2147483648, 4294967295.5,
					16777217, 1e9, -1e9, 1e18, -1e18, 9.3e18, 1.9e19, 3e38, 1e-30}
				if src == io.FLOAT32 {
					o := make([]float32, len(vals))
					for i, v := range vals {
						o[i] = float32(v)
					}
					col = o
				} else {
					col = append(vals, 1e300, -1e300)
				}
			} else {
				col = hx.ColumnFromBits(src, hx.EdgeBits())
			}
			n := len(hx.ColBytes(col)) / hx.TypeSize(src)
			b := &hx.Bucket{Sym: fmt.Sprintf("P%d", pi), TF: "1Min", Group: "G", Schema: []io.DataShape{{Name: "V", Type: dst}}}
			if err := in.Create(b); err != nil {
				t.Fatalf("create: %v", err)
			}
			r := &hx.Rows{Names: []string{"V"}, Cols: []interface{}{col}}
			for j := 0; j < n; j++ {
				r.Epoch = append(r.Epoch, base+int64(j)*60)
			}
			if err := in.WriteVia(b, r, 1); err != nil {
				t.Fatalf("write of a %s column into a %s bucket column rejected: %v", hx.TypeStr[src], hx.TypeStr[dst], err)
			}
			got, err := in.QueryAll(b)
			if err != nil || got.Len() != n {
				t.Fatalf("%s -> %s: query: %v (%d rows, want %d)", hx.TypeStr[src], hx.TypeStr[dst], err, got.Len(), n)
			}
			if cerr := hx.CheckSchema(b, got); cerr != nil {
				t.Fatalf("%s -> %s: %v", hx.TypeStr[src], hx.TypeStr[dst], cerr)
			}
			for j := 0; j < n; j++ {
				alts := expectedConv(col, j, dst)
				if alts == nil {
					rec.Class("conversion-implementation-defined(not asserted)", 1)
					continue
				}
				gotB := hx.RowBytes(&hx.Rows{Cols: []interface{}{got.Cols[0]}}, j)
				ok := false
				for _, a := range alts {
					ok = ok || string(a) == string(gotB)
				}
				if !ok {
					f, nn, uu, kind := numAt(col, j)
					t.Fatalf("sent %s value %v/%d/%d (%s) into a %s column: stored as %x, want one of %x", hx.TypeStr[src], f, nn, uu, kind, hx.TypeStr[dst], gotB, alts)
				}
			}
			rec.Case(fmt.Sprint("pair-sweep ", hx.TypeStr[src], "->", hx.TypeStr[dst]), "pair-sweep")
		}
	}
}

// C14 Writes are validated against the bucket schema.
func TestC14(t *testing.T) {
	rec := hx.R("C14")
	if os.Getenv("VERIF_REPLAY") == "" {
		c14PairSweep(t, rec)
	}
	rapid.Check(t, func(t *rapid.T) {
		variable := rapid.IntRange(0, 3).Draw(t, "variable") == 0
		tf := rapid.SampledFrom([]string{"1Min", "5Min", "1H", "1D"}).Draw(t, "tf")
		schema := hx.GenSchema(t, 4, hx.NumericTypes)
		nb := rapid.IntRange(1, 4).Draw(t, "nbuckets")
		root := hx.ScratchDir("c14")
		defer os.RemoveAll(root)
		in := hx.NewInst(root, hx.InstOpts{})
		defer in.Close()
		var bs []*hx.Bucket
		var ms []*hx.MBucket
		for i := 0; i < nb; i++ {
			b := &hx.Bucket{Sym: fmt.Sprintf("B%d", i), TF: tf, Group: "G", Variable: variable, Schema: schema}
			if err := in.Create(b); err != nil {
				t.Fatalf("create: %v", err)
			}
			bs = append(bs, b)
			ms = append(ms, hx.NewMBucket(b))
		}
		aux := &hx.Bucket{Sym: "AUX", TF: tf, Group: "G", Schema: []io.DataShape{{Name: "x", Type: io.INT32}}}
		base := int64(1583020800) // 2020-03-01, away from Jan 1
		step := int64(hx.TFDuration(tf).Seconds())

		// baseline content for every bucket
		for i, b := range bs {
			r := &hx.Rows{Epoch: []int64{base, base + step}}
			if variable {
				r.Nanos = []int32{5, 7}
			}
			for _, ds := range schema {
				r.Names = append(r.Names, ds.Name)
				r.Cols = append(r.Cols, hx.ColumnFromBits(ds.Type, []uint64{1, 2}))
			}
			if err := in.WriteVia(b, r, 1); err != nil {
				t.Fatalf("baseline write: %v", err)
			}
			ms[i].Apply(r, 0)
		}

		// the edited request
		edit := rapid.SampledFrom([]string{"none", "reorder", "retype", "drop", "add", "rename", "case"}).Draw(t, "edit")
		if len(schema) == 1 && edit == "reorder" {
			edit = "retype"
		}
		victim := rapid.IntRange(0, nb-1).Draw(t, "victim")
		n := rapid.IntRange(1, 6).Draw(t, "rows")
		csm := io.NewColumnSeriesMap()
		type pending struct {
			rows    *hx.Rows
			srcCols []interface{} // as sent (for conversion expectations)
			srcType []io.EnumElementType
		}
		pend := make([]*pending, nb)
		mismatch := false
		retyped := false
		for i, b := range bs {
			in := append([]io.DataShape(nil), schema...)
			if i == victim {
				switch edit {
				case "reorder":
					perm := rapid.Permutation(in).Draw(t, "perm")
					in = perm
				case "retype":
					k := rapid.IntRange(0, len(in)-1).Draw(t, "retypeCol")
					nt := rapid.SampledFrom(hx.NumericTypes).Draw(t, "newType")
					if nt != in[k].Type {
						retyped = true
					}
					in[k].Type = nt
				case "drop":
					if len(in) > 1 {
						k := rapid.IntRange(0, len(in)-1).Draw(t, "dropCol")
						in = append(in[:k:k], in[k+1:]...)
						mismatch = true
					} else {
						in[0].Name = in[0].Name + "_r"
						mismatch = true
					}
				case "add":
					in = append(in, io.DataShape{Name: "Extra_col", Type: io.INT32})
					mismatch = true
				case "rename":
					k := rapid.IntRange(0, len(in)-1).Draw(t, "renameCol")
					in[k].Name = in[k].Name + "_r"
					mismatch = true
				case "case":
					k := rapid.IntRange(0, len(in)-1).Draw(t, "caseCol")
					sw := strings.ToUpper(in[k].Name)
					if sw == in[k].Name {
						sw = strings.ToLower(in[k].Name)
					}
					if sw != in[k].Name {
						in[k].Name = sw
						mismatch = true
					}
				}
			}
			r := &hx.Rows{}
			for j := 0; j < n; j++ {
				r.Epoch = append(r.Epoch, base+int64(2+j)*step)
				if variable {
					if r.Nanos == nil {
						r.Nanos = []int32{}
					}
					r.Nanos = append(r.Nanos, int32(100+j))
				}
			}
			p := &pending{}
			for _, ds := range in {
				r.Names = append(r.Names, ds.Name)
				col := genNumericValues(t, ds.Type, n, ds.Name)
				r.Cols = append(r.Cols, col)
				p.srcCols = append(p.srcCols, col)
				p.srcType = append(p.srcType, ds.Type)
			}
			p.rows = r
			pend[i] = p
			csm.AddColumnSeries(*b.TBK(), r.ToCS())
		}
		err := in.W.WriteCSM(csm, variable)

		queryAll := func(i int) *hx.Rows {
			got, qerr := in.QueryAll(bs[i])
			if qerr != nil {
				t.Fatalf("query %s: %v", bs[i].Key(), qerr)
			}
			return got
		}
		checkUnchanged := func(when string) {
			for i := range bs {
				got := queryAll(i)
				var cerr error
				if variable {
					cerr = ms[i].CheckVarAll(got, nil)
				} else {
					cerr = ms[i].CheckFixedAll(got, nil)
				}
				if cerr != nil {
					t.Fatalf("request with a mismatching bucket (%s, edit=%s on %s) was rejected (%v) but bucket %s changed %s: %v",
						fmt.Sprint(pend[victim].rows.Names), edit, bs[victim].Key(), err, bs[i].Key(), when, cerr)
				}
			}
		}
		cls := []string{"edit:" + edit, fmt.Sprintf("buckets=%d", nb), fmt.Sprintf("variable=%v", variable)}
		nt := ""
		if mismatch {
			if err == nil {
				t.Fatalf("write with columns %v into bucket with columns %v was accepted", pend[victim].rows.Names, schema)
			}
			checkUnchanged("immediately")
			// an unrelated successful write + flush must not bring the rejected data in
			ar := &hx.Rows{Epoch: []int64{base}, Names: []string{"x"}, Cols: []interface{}{[]int32{1}}}
			if werr := in.WriteVia(aux, ar, 1); werr != nil {
				t.Fatalf("aux write: %v", werr)
			}
			checkUnchanged("after the next unrelated flush")
			if nb > 1 {
				nt = fmt.Sprint("mismatch", edit, nb, victim, schema, variable)
				cls = append(cls, "multi-bucket-mismatch")
			}
		} else {
			if err != nil {
				t.Fatalf("write with matching column names (edit=%s, sent %v %v, bucket %v) rejected: %v", edit, pend[victim].rows.Names, pend[victim].srcType, schema, err)
			}
			// every bucket: rows stored under the same names, converted to the bucket's types
			for i, b := range bs {
				got := queryAll(i)
				if cerr := hx.CheckSchema(b, got); cerr != nil {
					t.Fatalf("%s: %v", b.Key(), cerr)
				}
				if got.Len() != 2+n {
					t.Fatalf("%s: %d rows, want %d", b.Key(), got.Len(), 2+n)
				}
				p := pend[i]
				for ci, ds := range schema {
					// find the sent column with this name
					si := -1
					for k, nm := range p.rows.Names {
						if nm == ds.Name {
							si = k
						}
					}
					for j := 0; j < n; j++ {
						alts := expectedConv(p.srcCols[si], j, ds.Type)
						if alts == nil {
							rec.Class("conversion-implementation-defined(not asserted)", 1)
							continue
						}
						gotB := hx.RowBytes(&hx.Rows{Cols: []interface{}{got.Cols[ci]}}, 2+j)
						ok := false
						for _, a := range alts {
							if string(a) == string(gotB) {
								ok = true
							}
						}
						if !ok {
							f, nn, _, kind := numAt(p.srcCols[si], j)
							t.Fatalf("%s column %s: sent %v/%v (%s %s, request column order %v) stored as %x in %s, want one of %x (edit=%s)",
								b.Key(), ds.Name, f, nn, kind, hx.TypeStr[p.srcType[si]], p.rows.Names, gotB, hx.TypeStr[ds.Type], alts, edit)
						}
					}
				}
			}
			if retyped || edit == "reorder" {
				nt = fmt.Sprint("match", edit, schema, pend[victim].srcType, pend[victim].rows.Names, hx.Hash(pend[victim].srcCols...))
			}
		}
		if nt != "" {
			rec.Sample(map[string]interface{}{"bucket_schema": fmt.Sprint(schema), "edit": edit, "sent_columns": pend[victim].rows.Names,
				"sent_types": fmt.Sprint(pend[victim].srcType), "buckets_in_request": nb, "victim": victim, "variable": variable, "rejected": err != nil})
		}
		rec.Case(nt, cls...)
	})
	rec.Flush()
}
