package props

import (
	"context"
	"encoding/binary"
	"errors"
	"fmt"
	"net"
	"sync"
	"sync/atomic"
	"testing"
	"time"

	pb "github.com/alpacahq/marketstore/v4/proto"
	"github.com/alpacahq/marketstore/v4/replication"
	"google.golang.org/grpc/metadata"
	"google.golang.org/grpc/peer"
	"pgregory.net/rapid"

	"verifharness/hx"
)

// fakeStream is a replica's server-side stream: Send records, can fail on demand (replica
// gone) or block (replica not reading).
type fakeStream struct {
	ctx      context.Context
	mu       sync.Mutex
	got      []uint64
	failNow  int32
	blockCh  chan struct{}
	sendSeen int64
	probes   int64
}

func newFakeStream(addr string) *fakeStream {
	a, _ := net.ResolveTCPAddr("tcp", addr)
	return &fakeStream{ctx: peer.NewContext(context.Background(), &peer.Peer{Addr: a})}
}

func (f *fakeStream) Send(r *pb.GetWALStreamResponse) error {
	atomic.AddInt64(&f.sendSeen, 1)
	if f.blockCh != nil {
		<-f.blockCh
	}
	if atomic.LoadInt32(&f.failNow) != 0 {
		return errors.New("transport is closing")
	}
	id := binary.LittleEndian.Uint64(r.TransactionGroup)
	if id >= 1<<62 {
		atomic.AddInt64(&f.probes, 1) // registration probe, not part of the commit sequence
		return nil
	}
	f.mu.Lock()
	f.got = append(f.got, id)
	f.mu.Unlock()
	return nil
}
func (f *fakeStream) SetHeader(metadata.MD) error  { return nil }
func (f *fakeStream) SendHeader(metadata.MD) error { return nil }
func (f *fakeStream) SetTrailer(metadata.MD)       {}
func (f *fakeStream) Context() context.Context     { return f.ctx }
func (f *fakeStream) SendMsg(interface{}) error    { return nil }
func (f *fakeStream) RecvMsg(interface{}) error    { return nil }

// C26 Replication survives replicas connecting and disconnecting.
func TestC26(t *testing.T) {
	rec := hx.R("C26")
	rapid.Check(t, func(t *rapid.T) {
		rs := replication.NewGRPCReplicationServer()
		sender := replication.NewSender(rs)
		ctx, cancel := context.WithCancel(context.Background())
		defer cancel()
		sender.Run(ctx)
		nmsg := rapid.IntRange(50, 400).Draw(t, "messages")
		nst := rapid.IntRange(1, 6).Draw(t, "streams")
		slow := rapid.IntRange(0, 4).Draw(t, "slowReplica") == 0
		if slow {
			nmsg = rapid.IntRange(1200, 2000).Draw(t, "messagesWithSlowReplica")
		}
		type plan struct {
			openAt, closeAt int // message indices; closeAt<0: stays connected
			fs              *fakeStream
			done            chan struct{}
			openedBefore    int64
			confirmed       bool
		}
		var plans []*plan
		overlap := false
		for i := 0; i < nst; i++ {
			p := &plan{openAt: rapid.OneOf(rapid.Just(0), rapid.IntRange(0, nmsg/2)).Draw(t, "openAt"), closeAt: -1, fs: newFakeStream(fmt.Sprintf("10.0.0.%d:%d", i+1, 4000+i)), done: make(chan struct{})}
			if rapid.Bool().Draw(t, "closes") {
				p.closeAt = rapid.IntRange(p.openAt, nmsg-1).Draw(t, "closeAt")
				overlap = true
			}
			plans = append(plans, p)
		}
		var slowStream *fakeStream
		if slow {
			slowStream = newFakeStream("10.0.9.9:9999")
			slowStream.blockCh = make(chan struct{})
			go rs.GetWALStream(&pb.GetWALStreamRequest{}, slowStream)
			time.Sleep(2 * time.Millisecond)
		}
		// streams that open at message 0 are connected - and confirmed to be registered by probe
		// messages - before the first transaction is sent: they must receive every transaction
		for _, p := range plans {
			if p.openAt != 0 {
				continue
			}
			p := p
			go func() {
				rs.GetWALStream(&pb.GetWALStreamRequest{}, p.fs)
				close(p.done)
			}()
			probeDeadline := time.Now().Add(10 * time.Second)
			for atomic.LoadInt64(&p.fs.probes) == 0 {
				var b [16]byte
				binary.LittleEndian.PutUint64(b[:], 1<<62)
				rs.SendReplicationMessage(b[:])
				time.Sleep(200 * time.Microsecond)
				if time.Now().After(probeDeadline) {
					t.Fatalf("stream never registered")
				}
			}
			p.confirmed = true
		}
		var sent int64 = -1
		finished := make(chan struct{})
		go func() {
			defer close(finished)
			for m := 0; m < nmsg; m++ {
				for _, p := range plans {
					if p.openAt == m && !p.confirmed {
						p := p
						go func() {
							rs.GetWALStream(&pb.GetWALStreamRequest{}, p.fs)
							close(p.done)
						}()
						time.Sleep(1500 * time.Microsecond) // let the stream register
						p.openedBefore = int64(m)
					}
					if p.closeAt == m {
						atomic.StoreInt32(&p.fs.failNow, 1)
					}
				}
				var b [16]byte
				binary.LittleEndian.PutUint64(b[:], uint64(m))
				sender.Send(b[:])
				atomic.StoreInt64(&sent, int64(m))
			}
		}()
		select {
		case <-finished:
		case <-time.After(20 * time.Second):
			t.Fatalf("the master's fan-out blocks: %d of %d messages handed over after 20 s (streams=%d, slow replica=%v)", atomic.LoadInt64(&sent)+1, nmsg, nst, slow)
		}
		// let the per-stream goroutines drain
		deadline := time.Now().Add(10 * time.Second)
		for _, p := range plans {
			if p.closeAt >= 0 {
				continue
			}
			for time.Now().Before(deadline) {
				p.fs.mu.Lock()
				n := len(p.fs.got)
				last := uint64(0)
				if n > 0 {
					last = p.fs.got[n-1]
				}
				p.fs.mu.Unlock()
				if n > 0 && last == uint64(nmsg-1) {
					break
				}
				time.Sleep(time.Millisecond)
			}
		}
		if slowStream != nil {
			close(slowStream.blockCh)
		}
		for _, p := range plans {
			p.fs.mu.Lock()
			got := append([]uint64{}, p.fs.got...)
			p.fs.mu.Unlock()
			for i := 1; i < len(got); i++ {
				if got[i] != got[i-1]+1 {
					t.Fatalf("stream %v received message %d after %d: not every transaction in commit order (opened at %d, closes at %d)", p.fs.ctx, got[i], got[i-1], p.openAt, p.closeAt)
				}
			}
			dropped := false
			select {
			case <-p.done:
				// the server ended this stream although the replica never went away: it may do so only
				// when the replica lags by a full buffer (500 messages), impossible with <= 500 messages
				dropped = p.closeAt < 0 && nmsg > 500
			default:
			}
			if dropped {
				rec.Class("replica-dropped-after-lagging-a-full-buffer", 1)
			}
			if p.closeAt < 0 && !dropped {
				if !p.confirmed && len(got) == 0 {
					continue // opened during the fan-out and registered only after the last message: nothing due
				}
				if len(got) == 0 || got[len(got)-1] != uint64(nmsg-1) {
					t.Fatalf("stream opened at message %d and never closed received %d messages, last %v, of %d sent", p.openAt, len(got), lastOf(got), nmsg)
				}
				if p.confirmed && got[0] != 0 {
					t.Fatalf("stream registered before the first transaction was sent, but its first message is %d", got[0])
				}
			}
		}
		nt := ""
		if overlap && nst >= 2 {
			nt = fmt.Sprint(nmsg, nst, slow, hx.Hash(fmt.Sprint(plans)))
			rec.Sample(map[string]interface{}{"messages": nmsg, "streams": nst, "slow_replica": slow})
		}
		rec.Case(nt, fmt.Sprintf("streams=%d", nst), fmt.Sprintf("slow=%v", slow))
	})
	rec.Flush()
}

func lastOf(g []uint64) interface{} {
	if len(g) == 0 {
		return "none"
	}
	return g[len(g)-1]
}
