package props

import (
	"bytes"
	"fmt"
	"testing"

	"github.com/alpacahq/marketstore/v4/frontend"
	"github.com/alpacahq/marketstore/v4/utils/io"
	msgpack "github.com/vmihailenco/msgpack"
	"pgregory.net/rapid"

	"verifharness/hx"
)

// C27 Query/write wire format round-trips.
//
// cs per bucket -> NewNumpyDataset -> NewNumpyMultiDataset/Append -> msgpack
// Marshal/Unmarshal -> ToColumnSeriesMap (server side of a write request) and
// MultiQueryResponse.ToColumnSeriesMap (client side of a query response).
func TestC27(t *testing.T) {
	rec := hx.R("C27")
	rapid.Check(t, func(t *rapid.T) {
		nb := rapid.IntRange(1, 6).Draw(t, "nbuckets")
		schema := hx.GenSchema(t, 5, hx.WireTypes)
		withNanos := rapid.Bool().Draw(t, "nanoseconds")
		mixed := rapid.IntRange(0, 9).Draw(t, "mixedTypes") == 0 && nb >= 2 // same names, different types in one bucket
		clientSide := rapid.Bool().Draw(t, "clientSide")
		type want struct {
			names []string
			types []io.EnumElementType
			cols  [][]byte
			n     int
		}
		wants := map[string]*want{}
		var nmds *io.NumpyMultiDataset
		var appendErr error
		lens := []int{}
		for b := 0; b < nb; b++ {
			n := rapid.OneOf(rapid.Just(0), rapid.IntRange(0, 4), rapid.IntRange(0, 60), rapid.IntRange(0, 2000)).Draw(t, "rows")
			lens = append(lens, n)
			sch := append([]io.DataShape(nil), schema...)
			if mixed && b == nb-1 {
				k := rapid.IntRange(0, len(sch)-1).Draw(t, "retypeCol")
				nt := rapid.SampledFrom(hx.WireTypes).Draw(t, "newType")
				sch[k].Type = nt
			}
			cs := io.NewColumnSeries()
			w := &want{n: n}
			ep := hx.GenColumnBits(t, io.INT64, n, "epoch")
			cs.AddColumn("Epoch", ep)
			w.names, w.types, w.cols = append(w.names, "Epoch"), append(w.types, io.INT64), append(w.cols, hx.ColBytes(ep))
			for _, ds := range sch {
				col := hx.GenColumnBits(t, ds.Type, n, ds.Name)
				cs.AddColumn(ds.Name, col)
				w.names, w.types, w.cols = append(w.names, ds.Name), append(w.types, ds.Type), append(w.cols, hx.ColBytes(col))
			}
			if withNanos {
				ns := hx.GenColumnBits(t, io.INT32, n, "nanos")
				cs.AddColumn("Nanoseconds", ns)
				w.names, w.types, w.cols = append(w.names, "Nanoseconds"), append(w.types, io.INT32), append(w.cols, hx.ColBytes(ns))
			}
			tbk := io.NewTimeBucketKey(fmt.Sprintf("S%d/1Min/G", b))
			wants[tbk.String()] = w
			if nmds == nil {
				nds, err := io.NewNumpyDataset(cs)
				if err != nil {
					t.Fatalf("NewNumpyDataset: %v", err)
				}
				nmds, err = io.NewNumpyMultiDataset(nds, *tbk)
				if err != nil {
					t.Fatalf("NewNumpyMultiDataset: %v", err)
				}
			} else if err := nmds.Append(cs, *tbk); err != nil {
				appendErr = err
			}
		}
		realMixed := false
		if mixed {
			// did the retype really change a type?
			for k := range wants {
				if fmt.Sprint(wants[k].types) != fmt.Sprint(wants["S0/1Min/G:Symbol/Timeframe/AttributeGroup"].types) {
					realMixed = true
				}
			}
		}
		cls := []string{fmt.Sprintf("buckets=%d", nb), fmt.Sprintf("clientSide=%v", clientSide)}
		if appendErr != nil {
			if realMixed {
				rec.Case("", append(cls, "mixed-types:rejected")...)
				return // a clean error is an allowed outcome for buckets that differ in type
			}
			t.Fatalf("Append of a bucket with the same schema failed: %v", appendErr)
		}
		// encode / decode
		var got io.ColumnSeriesMap
		if clientSide {
			resp := frontend.MultiQueryResponse{Responses: []frontend.QueryResponse{{Result: nmds}}}
			b, err := msgpack.Marshal(&resp)
			if err != nil {
				t.Fatalf("marshal: %v", err)
			}
			var back frontend.MultiQueryResponse
			if err := msgpack.Unmarshal(b, &back); err != nil {
				t.Fatalf("unmarshal: %v", err)
			}
			csm, err := back.ToColumnSeriesMap()
			if err != nil {
				t.Fatalf("MultiQueryResponse.ToColumnSeriesMap: %v", err)
			}
			got = *csm
		} else {
			req := frontend.MultiWriteRequest{Requests: []frontend.WriteRequest{{Data: nmds}}}
			b, err := msgpack.Marshal(&req)
			if err != nil {
				t.Fatalf("marshal: %v", err)
			}
			var back frontend.MultiWriteRequest
			if err := msgpack.Unmarshal(b, &back); err != nil {
				t.Fatalf("unmarshal: %v", err)
			}
			csm, err := back.Requests[0].Data.ToColumnSeriesMap()
			if err != nil {
				t.Fatalf("ToColumnSeriesMap: %v", err)
			}
			got = csm
		}
		if len(got) != len(wants) {
			t.Fatalf("%d buckets after the round trip, %d before (lengths %v)", len(got), len(wants), lens)
		}
		for key, w := range wants {
			var cs *io.ColumnSeries
			for k, v := range got {
				if k.String() == key {
					cs = v
				}
			}
			if cs == nil {
				t.Fatalf("bucket %s (%d rows) missing after the round trip", key, w.n)
			}
			if realMixed {
				// accepted without error: then it must be faithful
			}
			names := cs.GetColumnNames()
			if fmt.Sprint(names) != fmt.Sprint(w.names) {
				t.Fatalf("bucket %s (%d rows): columns %v after the round trip, %v before", key, w.n, names, w.names)
			}
			for i, nme := range w.names {
				col := cs.GetColumn(nme)
				if gt := hx.GoTypeOf(col); gt != hx.ExpectedGoType(w.types[i]) {
					t.Fatalf("bucket %s column %s: type %s after the round trip, %s before", key, nme, gt, hx.ExpectedGoType(w.types[i]))
				}
				if !bytes.Equal(hx.ColBytes(col), w.cols[i]) {
					t.Fatalf("bucket %s column %s (%v, %d rows): values differ after the round trip", key, nme, w.types[i], w.n)
				}
			}
		}
		nt := ""
		distinct := map[int]bool{}
		for _, n := range lens {
			distinct[n] = true
		}
		if nb >= 2 && len(distinct) >= 2 {
			nt = fmt.Sprint(schema, lens, withNanos, clientSide, hx.Hash(wants))
			rec.Sample(map[string]interface{}{"schema": fmt.Sprint(schema), "bucket_lengths": lens, "nanoseconds": withNanos, "client_side": clientSide})
		}
		for _, n := range lens {
			if n == 0 {
				cls = append(cls, "has-zero-length-bucket")
				break
			}
		}
		if realMixed {
			cls = append(cls, "mixed-types:accepted-faithfully")
		}
		rec.Case(nt, cls...)
	})
	rec.Flush()
}
