package props

import (
	"bytes"
	"encoding/csv"
	"fmt"
	"math"
	"os"
	"path/filepath"
	"regexp"
	"strconv"
	"strings"
	"testing"
	"time"

	"github.com/alpacahq/marketstore/v4/cmd/connect/loader"
	"github.com/alpacahq/marketstore/v4/utils/io"

	"verifharness/hx"
)

// FuzzC33 is the byte-level companion of TestC33: arbitrary bytes as the CSV file of a
// fixed bucket (Epoch, A int32, B float64; header row; time zone UTC), imported by the
// loader loop of the \load command with a small chunk size.
//
// Oracle: no panic. If the file is not well-formed CSV (encoding/csv with the reader's
// default settings - the loader's own reader - rejects it) the import must report an
// error. If the import reports success, the number of rows written equals the number of
// data records of the file, and every cell written for a record whose cells are all in
// canonical form (YYYY-MM-DD hh:mm:ss, plain decimal integer, plain decimal fraction)
// carries exactly that value. If every record is canonical the import must succeed.
var (
	fz33Time = regexp.MustCompile(`^\d{4}-\d{2}-\d{2} \d{2}:\d{2}:\d{2}$`)
	fz33Int  = regexp.MustCompile(`^-?\d{1,9}$`)
	fz33Flt  = regexp.MustCompile(`^-?\d{1,9}(\.\d{1,6})?$`)
)

func fz33Check(data []byte) error {
	dir := hx.ScratchDir("fz33")
	defer os.RemoveAll(dir)
	csvPath, ctlPath := filepath.Join(dir, "data.csv"), filepath.Join(dir, "ctl.yaml")
	os.WriteFile(csvPath, data, 0o644)
	os.WriteFile(ctlPath, []byte("firstRowHasColumnNames: true\ntimeFormat: \"2006-01-02 15:04:05\"\ntimeZone: \"UTC\"\n"), 0o644)
	dsv := []io.DataShape{{Name: "Epoch", Type: io.INT64}, {Name: "A", Type: io.INT32}, {Name: "B", Type: io.FLOAT64}}
	tbk := io.NewTimeBucketKey("CSV/1Min/G")
	var writes []*io.NumpyMultiDataset
	var loadErr error
	var panicked interface{}
	func() {
		defer func() { panicked = recover() }()
		dfd, _ := os.Open(csvPath)
		cfd, _ := os.Open(ctlPath)
		defer dfd.Close()
		defer cfd.Close()
		rdr, cvm, err := loader.ReadMetadata(dfd, cfd, dsv)
		if err != nil {
			loadErr = err
			return
		}
		for {
			npm, end, err := loader.CSVtoNumpyMulti(rdr, *tbk, cvm, 3, false)
			if err != nil {
				loadErr = err
				return
			}
			if npm != nil {
				writes = append(writes, npm)
			}
			if end {
				break
			}
		}
	}()
	if panicked != nil {
		return fmt.Errorf("import panics: %v", panicked)
	}
	recs, refErr := csv.NewReader(bytes.NewReader(data)).ReadAll()
	if refErr != nil {
		if loadErr == nil {
			return fmt.Errorf("import reports success although the file is not well-formed CSV (%v)", refErr)
		}
		return nil
	}
	if len(recs) == 0 {
		return nil // empty file: no header, either answer
	}
	hdr := recs[0]
	col := map[string]int{}
	for i, h := range hdr {
		col[strings.ToLower(h)] = i
	}
	ei, eok := col["epoch"]
	ai, aok := col["a"]
	bi, bok := col["b"]
	headerOK := eok && aok && bok && len(col) == len(hdr)
	allCanon := headerOK
	type want struct {
		canon bool
		e     int64
		a     int32
		b     float64
	}
	var ws []want
	for _, r := range recs[1:] {
		w := want{}
		if headerOK && fz33Time.MatchString(r[ei]) && fz33Int.MatchString(r[ai]) && fz33Flt.MatchString(r[bi]) {
			if tm, err := time.Parse("2006-01-02 15:04:05", r[ei]); err == nil {
				a, _ := strconv.ParseInt(r[ai], 10, 32)
				b, _ := strconv.ParseFloat(r[bi], 64)
				w = want{true, tm.Unix(), int32(a), b}
			}
		}
		if !w.canon {
			allCanon = false
		}
		ws = append(ws, w)
	}
	if loadErr != nil {
		if allCanon && len(hdr) == 3 {
			return fmt.Errorf("import of a file whose %d records are all in canonical form fails: %v", len(ws), loadErr)
		}
		return nil
	}
	var gotE []int64
	var gotA []int32
	var gotB []float64
	for _, w := range writes {
		csm, err := w.ToColumnSeriesMap()
		if err != nil {
			return fmt.Errorf("written dataset undecodable: %v", err)
		}
		for _, cs := range csm {
			e, _ := cs.GetColumn("Epoch").([]int64)
			a, ok1 := cs.GetColumn("A").([]int32)
			b, ok2 := cs.GetColumn("B").([]float64)
			if !ok1 || !ok2 || len(a) != len(e) || len(b) != len(e) {
				return fmt.Errorf("written dataset has columns A=%T B=%T (lengths %d/%d/%d)", cs.GetColumn("A"), cs.GetColumn("B"), len(e), len(a), len(b))
			}
			gotE, gotA, gotB = append(gotE, e...), append(gotA, a...), append(gotB, b...)
		}
	}
	if len(gotE) != len(ws) {
		return fmt.Errorf("import reports success: %d rows written, the file has %d data records", len(gotE), len(ws))
	}
	for i, w := range ws {
		if !w.canon {
			continue
		}
		if gotE[i] != w.e || gotA[i] != w.a || math.Float64bits(gotB[i]) != math.Float64bits(w.b) {
			return fmt.Errorf("record %d: written (%d, %d, %v), the file states (%d, %d, %v)", i, gotE[i], gotA[i], gotB[i], w.e, w.a, w.b)
		}
	}
	return nil
}

func FuzzC33(f *testing.F) {
	valid := "Epoch,A,B\n2020-06-01 00:00:00,1,1.5\n2020-06-01 00:01:00,-2,2.25\n2020-06-01 00:02:00,3,3\n2020-06-01 00:03:00,4,4.125\n"
	f.Add([]byte(valid))
	f.Add([]byte("Epoch,A,B\n"))
	f.Add([]byte(""))
	f.Add([]byte("Epoch,A,B\n2020-06-01 00:00:00,1\n2020-06-01 00:01:00,2,2\n"))
	f.Add([]byte("Epoch,A,B\n2020-06-01 00:00:00,1,1\n2020-06-01 00:01:00,2,2,9\n"))
	f.Add([]byte("Epoch,A,B\n2020-06-01 00:00:00,1,1\n2020-06-01 00:01:00,\"2,2\n2020-06-01 00:02:00,3,3\n2020-06-01 00:03:00,4,4\n"))
	f.Add([]byte("Epoch,A,B\n2020-06-01 00:00:00,1,1\n2020-06-01 00:01:00,1\"2,2\n"))
	f.Add([]byte("Epoch,A,B\n2020-06-01 00:00:00,1,1\n2020-13-45 99:00:00,2,2\n"))
	f.Add([]byte("Epoch,A,B\n2020-06-01 00:00:00,1,1\n\n2020-06-01 00:01:00,12x4,2\n"))
	f.Add([]byte("epoch,b,a\r\n2020-06-01 00:00:00,1.5,1\r\n2020-06-01 00:01:00,2.5,2\r\n"))
	f.Add([]byte("Epoch,A,B\n\"2020-06-01 00:00:00\",\"1\",\"1\"\n2020-06-01 00:01:00,2,\n"))
	f.Add([]byte("A,B\n1,2\n"))
	f.Add([]byte("Epoch,A,B,A\n2020-06-01 00:00:00,1,1,1\n"))
	f.Add([]byte("Epoch,A,B\n2020-06-01 00:00:00,99999999999,1\n"))
	f.Add([]byte("Epoch,A,B\n2020-06-01 00:00:00,1,1e309\n2020-06-01 00:00:01,1,NaN\n"))
	rec := hx.R("C33")
	f.Fuzz(func(t *testing.T, data []byte) {
		if len(data) > 1<<14 {
			t.Skip()
		}
		if err := fz33Check(data); err != nil {
			t.Fatalf("%v\nfile:\n%q", err, data)
		}
		rec.Add("fuzz_inputs_checked", 1)
	})
}
