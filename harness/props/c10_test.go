package props

import (
	"fmt"
	"math/rand"
	"testing"
	"time"

	"github.com/alpacahq/marketstore/v4/executor"
	"github.com/alpacahq/marketstore/v4/utils/io"

	"verifharness/hx"
)

// C10 Sub-interval timestamp encoding is monotone and precise.
//
// Subject: io.GetIntervalTicks32Bit (write path) composed with
// executor.GetTimeFromTicks (read path). Oracle per (timeframe, interval start
// S, offset o ns in [0, interval)):  decode(encode(S+o)) = S+d with
// 0 <= d <= o and o-d <= ceil(interval/2^32 ns); d is monotone in o; for 1Sec
// d == o. Enumeration, not sampling, wherever the space allows it.

type c10Case struct {
	TF    string `json:"tf"`
	Start int64  `json:"interval_start_epoch"`
	Off   int64  `json:"offset_ns"`
	Prev  int64  `json:"previous_offset_ns"` // for monotonicity failures, else -1
	Msg   string `json:"failure"`
}

type c10Enc struct {
	tf    string
	dur   time.Duration
	ipd   int64
	start int64
	base  time.Time
	idx   int64
	res   int64
}

func newC10Enc(tf string, start int64) *c10Enc {
	d := hx.TFDuration(tf)
	base := time.Unix(start, 0).UTC()
	return &c10Enc{tf: tf, dur: d, ipd: int64(24 * time.Hour / d), start: start, base: base,
		idx: io.TimeToIndex(base, d), res: hx.ResolutionNs(d)}
}

// roundTrip returns the decoded offset and the tick count.
func (e *c10Enc) roundTrip(off int64) (int64, uint32) {
	ts := e.base.Add(time.Duration(off))
	ticks := io.GetIntervalTicks32Bit(ts, e.idx, e.ipd)
	sec, ns := executor.GetTimeFromTicks(uint64(e.start), uint32(e.ipd), ticks)
	return (int64(sec)-e.start)*1e9 + int64(ns), ticks
}

func (e *c10Enc) check(off int64) string {
	d, _ := e.roundTrip(off)
	switch {
	case d > off:
		return fmt.Sprintf("decoded offset %d ns is later than the written offset %d ns", d, off)
	case d < 0:
		return fmt.Sprintf("decoded offset %d ns lies before the interval", d)
	case off-d > e.res:
		return fmt.Sprintf("decoded offset %d ns is %d ns earlier than written %d ns (resolution step %d ns)", d, off-d, off, e.res)
	case e.tf == "1Sec" && d != off:
		return fmt.Sprintf("1Sec round trip not exact: wrote %d ns, read %d ns", off, d)
	}
	return ""
}

func c10Starts(tf string) []int64 {
	d := int64(hx.TFDuration(tf) / time.Second)
	y := func(yy int) int64 { return time.Date(yy, 1, 1, 0, 0, 0, 0, time.UTC).Unix() }
	out := []int64{
		y(2019),     // first interval of a year
		y(2021) - d, // last interval of a leap year
		hx.SlotStart(y(2020)+59*86400+43200, time.Duration(d)*time.Second), // Feb 29 noon
		hx.SlotStart(y(2022)+200*86400+12345, time.Duration(d)*time.Second),
	}
	return out
}

func TestC10(t *testing.T) {
	rec := hx.R("C10")
	shard, nsh := envInt("VERIF_SHARD", 0), envInt("VERIF_NSHARDS", 1)
	var rc c10Case
	if hx.LoadReplay(&rc) {
		e := newC10Enc(rc.TF, rc.Start)
		if msg := e.check(rc.Off); msg != "" {
			t.Fatalf("replay %+v: %s", rc, msg)
		}
		if rc.Prev >= 0 {
			d0, _ := e.roundTrip(rc.Prev)
			d1, _ := e.roundTrip(rc.Off)
			if d1 < d0 {
				t.Fatalf("replay %+v: not monotone: %d -> %d, %d -> %d", rc, rc.Prev, d0, rc.Off, d1)
			}
		}
		return
	}
	fail := func(e *c10Enc, off, prev int64, msg string) {
		c := c10Case{TF: e.tf, Start: e.start, Off: off, Prev: prev, Msg: msg}
		hx.SaveReplay("C10", c)
		rec.Flush()
		t.Fatalf("%s interval %s offset %d ns: %s", e.tf, e.base.Format(time.RFC3339), off, msg)
	}
	// sweep [lo,hi) with stride; checks every offset and monotonicity between visited offsets
	var evals, nontrivial int64
	sweep := func(e *c10Enc, lo, hi, stride int64) {
		prevOff, prevD, prevTicks := int64(-1), int64(-1), uint32(0)
		ivNs := e.dur.Nanoseconds()
		for off := lo; off < hi; off += stride {
			d, ticks := e.roundTrip(off)
			evals++
			if msg := e.checkD(off, d); msg != "" {
				fail(e, off, -1, msg)
			}
			if prevOff >= 0 && (d < prevD || ticks < prevTicks) {
				fail(e, off, prevOff, fmt.Sprintf("not monotone: offset %d -> decoded %d (ticks %d), offset %d -> decoded %d (ticks %d)",
					prevOff, prevD, prevTicks, off, d, ticks))
			}
			prevOff, prevD, prevTicks = off, d, ticks
			if e.tf == "1Sec" && stride == 1 {
				if ivNs-off <= 8 || off%1e9 >= 999999992 {
					nontrivial++
				}
			}
		}
	}

	// ---- 1Sec: every nanosecond offset (thorough) or a strided pass plus dense edges (quick)
	for si, s := range c10Starts("1Sec") {
		e := newC10Enc("1Sec", s)
		per := int64(1e9) / int64(nsh)
		lo, hi := int64(shard)*per, int64(shard+1)*per
		if shard == nsh-1 {
			hi = 1e9
		}
		if thorough() && si == 0 {
			sweep(e, lo, hi, 1)
			rec.Class("1Sec:exhaustive-offsets", hi-lo)
		} else {
			sweep(e, lo, hi, 997)
			// dense edges of the shard's range and of the interval
			sweep(e, lo, minI64(lo+20000, hi), 1)
			sweep(e, maxI64(hi-20000, lo), hi, 1)
			rec.Class("1Sec:strided-offsets", (hi-lo)/997+40000)
		}
	}

	// ---- other timeframes
	rng := rand.New(rand.NewSource(int64(envInt("VERIF_SEED", 1))*7919 + int64(shard)))
	nTick := int64(20000)
	nRand := int64(100000)
	nWin := 20
	if thorough() {
		nTick, nRand, nWin = 2000000, 10000000, 2000
	}
	for _, tf := range hx.DiskTimeframes[1:] {
		for _, s := range c10Starts(tf) {
			e := newC10Enc(tf, s)
			ivNs := e.dur.Nanoseconds()
			// (a) tick boundaries: offsets k*interval/2^32 rounded, +-2 ns, for k in this shard's
			//     stratified sample (distinct k => distinct offsets because a tick is > 4 ns here)
			step := (int64(1) << 32) / (nTick * int64(nsh))
			if step < 1 {
				step = 1
			}
			for k := int64(shard) * step; k < 1<<32; k += step * int64(nsh) {
				kk := k + rng.Int63n(step)
				if kk >= 1<<32 {
					kk = 1<<32 - 1
				}
				// exact tick time = kk*ivNs/2^32 (128-bit safe: ivNs < 2^47, kk < 2^32 -> use big-free split)
				bo := mulDiv32(kk, ivNs)
				prevOff, prevD := int64(-1), int64(-1)
				for o := bo - 2; o <= bo+2; o++ {
					if o < 0 || o >= ivNs {
						continue
					}
					d, _ := e.roundTrip(o)
					evals++
					nontrivial++
					if msg := e.checkD(o, d); msg != "" {
						fail(e, o, -1, msg)
					}
					if prevOff >= 0 && d < prevD {
						fail(e, o, prevOff, fmt.Sprintf("not monotone: %d -> %d, %d -> %d", prevOff, prevD, o, d))
					}
					prevOff, prevD = o, d
				}
			}
			// (b) every whole-second edge of the interval +-6 ns (shards split the seconds)
			secs := ivNs / 1e9
			for sIdx := int64(shard); sIdx <= secs; sIdx += int64(nsh) {
				lo, hi := sIdx*1e9-6, sIdx*1e9+6
				if lo < 0 {
					lo = 0
				}
				if hi > ivNs {
					hi = ivNs
				}
				sweep(e, lo, hi, 1)
			}
			// (c) dense windows at random positions (monotonicity over consecutive ns)
			for w := 0; w < nWin; w++ {
				lo := rng.Int63n(ivNs - 3000)
				sweep(e, lo, lo+3000, 1)
			}
			// (d) uniform samples
			for i := int64(0); i < nRand/int64(len(hx.DiskTimeframes)*4); i++ {
				o := rng.Int63n(ivNs)
				evals++
				if msg := e.check(o); msg != "" {
					fail(e, o, -1, msg)
				}
			}
			rec.Class("tf:"+tf, 1)
		}
	}
	rec.Evaluations(evals)
	rec.AddNT(nontrivial)
	rec.Sample(map[string]interface{}{"tf": "1Min", "interval_start": c10Starts("1Min")[0], "offset_ns": 999999999,
		"decoded_ns": func() int64 { d, _ := newC10Enc("1Min", c10Starts("1Min")[0]).roundTrip(999999999); return d }()})
	rec.Sample(map[string]interface{}{"tf": "1Sec", "interval_start": c10Starts("1Sec")[1], "offset_ns": 999999999,
		"decoded_ns": func() int64 { d, _ := newC10Enc("1Sec", c10Starts("1Sec")[1]).roundTrip(999999999); return d }()})
	rec.Flush()
}

func (e *c10Enc) checkD(off, d int64) string {
	switch {
	case d > off:
		return fmt.Sprintf("decoded offset %d ns is later than the written offset %d ns", d, off)
	case d < 0:
		return fmt.Sprintf("decoded offset %d ns lies before the interval", d)
	case off-d > e.res:
		return fmt.Sprintf("decoded offset %d ns is %d ns earlier than written %d ns (resolution step %d ns)", d, off-d, off, e.res)
	case e.tf == "1Sec" && d != off:
		return fmt.Sprintf("1Sec round trip not exact: wrote %d ns, read %d ns", off, d)
	}
	return ""
}

// mulDiv32 = floor(k*n / 2^32) for k < 2^32, n < 2^47 without overflow.
func mulDiv32(k, n int64) int64 {
	hi, lo := n>>32, n&0xffffffff
	return k*hi + (k*lo)>>32
}

func minI64(a, b int64) int64 {
	if a < b {
		return a
	}
	return b
}

func maxI64(a, b int64) int64 {
	if a > b {
		return a
	}
	return b
}
