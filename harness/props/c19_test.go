package props

import (
	"fmt"
	"strconv"
	"strings"
	"testing"
	"time"
	"unicode"

	"github.com/alpacahq/marketstore/v4/sqlparser"
	"github.com/alpacahq/marketstore/v4/utils/io"
	"pgregory.net/rapid"

	"verifharness/hx"
)

// runSQL executes one statement through BuildQueryTree -> NewExecutableStatement -> Materialize.
func runSQL(in *hx.Inst, stmt string) (*hx.Rows, *io.ColumnSeries, error) {
	tree, err := sqlparser.BuildQueryTree(stmt)
	if err != nil {
		return nil, nil, fmt.Errorf("parse: %w", err)
	}
	es, err := sqlparser.NewExecutableStatement(tree)
	if err != nil {
		return nil, nil, fmt.Errorf("build: %w", err)
	}
	cs, err := es.Materialize(in.C.GetAggRunner(), in.Cat)
	if err != nil {
		return nil, nil, err
	}
	r, err := hx.FromCS(cs)
	return r, cs, err
}

// sqlSchemaTypes: the element types the SQL post-filter implements.
var sqlSchemaTypes = []io.EnumElementType{io.INT32, io.INT64, io.FLOAT32, io.FLOAT64}

// genSQLStore: stored history with non-negative values from a small range (ties with
// literals are likely), second-aligned times.
func genSQLStore(t *rapid.T, rec *hx.Rec, variable bool) *storeCase {
	tf := rapid.SampledFrom([]string{"1Min", "5Min", "1H", "1D"}).Draw(t, "tf")
	schema := hx.GenSchema(t, 3, sqlSchemaTypes)
	for i := range schema {
		schema[i].Name = "zz" + schema[i].Name // never an SQL keyword (BY, AS, IN, ...)
	}
	if len(schema) >= 2 && rapid.IntRange(0, 7).Draw(t, "caseTwin") == 0 {
		// two columns whose names differ only in case (KF-20b: SELECT * used to drop one of them)
		twin := []rune(schema[0].Name)
		for i, r := range twin {
			if i >= 2 && unicode.IsLetter(r) {
				if unicode.IsUpper(r) {
					twin[i] = unicode.ToLower(r)
				} else {
					twin[i] = unicode.ToUpper(r)
				}
				break
			}
		}
		clash := false
		for i := 2; i < len(schema); i++ {
			clash = clash || schema[i].Name == string(twin)
		}
		if string(twin) != schema[0].Name && !clash {
			schema[1].Name = string(twin)
			rec.Class("schema-with-names-differing-only-in-case", 1)
		}
	}
	b := &hx.Bucket{Sym: "Q", TF: tf, Group: "G", Variable: variable, Schema: schema}
	sc := &storeCase{b: b, m: hx.NewMBucket(b)}
	sc.root = hx.ScratchDir("sql")
	sc.in = hx.NewInst(sc.root, hx.InstOpts{})
	n := rapid.IntRange(1, 25).Draw(t, "nrows")
	tfSec := int64(hx.TFDuration(tf).Seconds())
	base := int64(1583020800) + 86400*rapid.Int64Range(0, 5).Draw(t, "day") // March 2020
	if rapid.IntRange(0, 4).Draw(t, "yearEdge") == 0 {
		base = 1609459200 - 3*tfSec // around 2021-01-01
	}
	r := &hx.Rows{}
	if variable {
		r.Nanos = []int32{}
	}
	for i := 0; i < n; i++ {
		e := base + tfSec*rapid.Int64Range(1, 8).Draw(t, "slot")
		if variable {
			e += rapid.Int64Range(0, tfSec-1).Draw(t, "sec")
			r.Nanos = append(r.Nanos, rapid.SampledFrom([]int32{0, 0, 1, 500000000, 999999999, 123456780}).Draw(t, "ns"))
		}
		r.Epoch = append(r.Epoch, e)
	}
	for _, ds := range schema {
		r.Names = append(r.Names, ds.Name)
		vals := rapid.SliceOfN(rapid.IntRange(0, 12), n, n).Draw(t, ds.Name)
		var col interface{}
		switch ds.Type {
		case io.INT32:
			c := make([]int32, n)
			for i, v := range vals {
				c[i] = int32(v)
			}
			col = c
		case io.INT64:
			c := make([]int64, n)
			for i, v := range vals {
				c[i] = int64(v) * 1000000007 // beyond int32
			}
			col = c
		case io.FLOAT32:
			c := make([]float32, n)
			for i, v := range vals {
				c[i] = float32(v) * 0.1 // 0.1 steps: float32(0.3) != float64(0.3)
			}
			col = c
		case io.FLOAT64:
			c := make([]float64, n)
			for i, v := range vals {
				c[i] = float64(v) * 0.25
			}
			col = c
		}
		r.Cols = append(r.Cols, col)
	}
	if err := sc.in.WriteVia(b, r, 1); err != nil {
		t.Fatalf("write: %v", err)
	}
	return sc
}

type sqlCond struct {
	col  string // "Epoch" or column name
	op   string // < <= > >= = BETWEEN
	text string // SQL text of the condition
	eval func(timeNs int64, colVal interface{}) bool
}

func fmtDate(ns int64, layout int) (string, int64) {
	t := time.Unix(0, ns).UTC()
	switch layout {
	case 0: // full precision: 8 fractional digits
		ns8 := ns - ns%10
		return "'" + time.Unix(0, ns8).UTC().Format("2006-01-02-15:04:05.00000000") + "'", ns8
	case 1:
		s := ns - ns%1e9
		return "'" + time.Unix(0, s).UTC().Format("2006-01-02-15:04:05") + " UTC'", s
	case 2:
		s := ns - ns%1e9
		return "'" + time.Unix(0, s).UTC().Format("2006-01-02-15:04:05") + "'", s
	case 3:
		s := ns - ns%60e9
		return "'" + time.Unix(0, s).UTC().Format("2006-01-02-15:04") + "'", s
	}
	d := time.Date(t.Year(), t.Month(), t.Day(), 0, 0, 0, 0, time.UTC).UnixNano()
	return "'" + time.Unix(0, d).UTC().Format("2006-01-02") + "'", d
}

func cmpI64(op string, a, b int64) bool {
	switch op {
	case "<":
		return a < b
	case "<=":
		return a <= b
	case ">":
		return a > b
	case ">=":
		return a >= b
	}
	return a == b
}

func cmpF64(op string, a, b float64) bool {
	switch op {
	case "<":
		return a < b
	case "<=":
		return a <= b
	case ">":
		return a > b
	case ">=":
		return a >= b
	}
	return a == b
}

// genCond draws one comparison over Epoch or a value column, with literals on, between and
// outside stored values.
func genCond(t *rapid.T, sc *storeCase, base *hx.Rows) sqlCond {
	ops := []string{"<", "<=", ">", ">=", "=", "BETWEEN"}
	op := rapid.SampledFrom(ops).Draw(t, "op")
	onEpoch := rapid.IntRange(0, 2).Draw(t, "onEpoch") != 0
	if onEpoch {
		// literal near a stored time
		i := rapid.IntRange(0, base.Len()-1).Draw(t, "row")
		tn := rowTimeNs(base, i) + rapid.SampledFrom([]int64{0, 0, 10, -10, 1e9, -1e9, 30e9, -30e9, 86400e9, -86400e9}).Draw(t, "delta")
		form := rapid.SampledFrom([]string{"date", "date", "seconds", "nanos"}).Draw(t, "epochForm")
		lit := func(ns int64) (string, int64) {
			switch form {
			case "seconds":
				s := ns - ns%1e9
				return strconv.FormatInt(s/1e9, 10), s
			case "nanos":
				return strconv.FormatInt(ns, 10), ns
			}
			return fmtDate(ns, rapid.IntRange(0, 4).Draw(t, "layout"))
		}
		if op == "BETWEEN" {
			a, av := lit(tn)
			b, bv := lit(tn + rapid.SampledFrom([]int64{0, 1e9, 60e9, 3600e9, 3 * 86400e9}).Draw(t, "width"))
			return sqlCond{col: "Epoch", op: op, text: fmt.Sprintf("Epoch BETWEEN %s AND %s", a, b),
				eval: func(tns int64, _ interface{}) bool { return tns > av && tns < bv }}
		}
		a, av := lit(tn)
		return sqlCond{col: "Epoch", op: op, text: fmt.Sprintf("Epoch %s %s", op, a),
			eval: func(tns int64, _ interface{}) bool { return cmpI64(op, tns, av) }}
	}
	ci := rapid.IntRange(0, len(sc.b.Schema)-1).Draw(t, "col")
	ds := sc.b.Schema[ci]
	k := rapid.IntRange(0, 13).Draw(t, "lit")
	k2 := k + rapid.IntRange(0, 5).Draw(t, "width")
	half := rapid.Bool().Draw(t, "between-values")
	switch ds.Type {
	case io.INT32, io.INT64:
		mul := int64(1)
		if ds.Type == io.INT64 {
			mul = 1000000007
		}
		v, v2 := int64(k)*mul, int64(k2)*mul
		if half && ds.Type == io.INT64 {
			v += 5
		}
		if op == "BETWEEN" {
			return sqlCond{col: ds.Name, op: op, text: fmt.Sprintf("%s BETWEEN %d AND %d", ds.Name, v, v2),
				eval: func(_ int64, c interface{}) bool { _, n, _, _ := numAt1(c); return n > v && n < v2 }}
		}
		return sqlCond{col: ds.Name, op: op, text: fmt.Sprintf("%s %s %d", ds.Name, op, v),
			eval: func(_ int64, c interface{}) bool { _, n, _, _ := numAt1(c); return cmpI64(op, n, v) }}
	}
	// float columns: decimal literals; the comparison happens in the column's own precision
	step := 0.25
	if ds.Type == io.FLOAT32 {
		step = 0.1
	}
	lit := func(k int) (string, float64) {
		v := float64(k) * step
		if half {
			v += step / 2
		}
		s := strconv.FormatFloat(v, 'f', 3, 64)
		pv, _ := strconv.ParseFloat(s, 64)
		return s, pv
	}
	a, av := lit(k)
	b, bv := lit(k2)
	conv := func(c interface{}, lit float64) (float64, float64) {
		f, _, _, _ := numAt1(c)
		if ds.Type == io.FLOAT32 {
			return f, float64(float32(lit))
		}
		return f, lit
	}
	if op == "BETWEEN" {
		return sqlCond{col: ds.Name, op: op, text: fmt.Sprintf("%s BETWEEN %s AND %s", ds.Name, a, b),
			eval: func(_ int64, c interface{}) bool {
				x, lo := conv(c, av)
				_, hi := conv(c, bv)
				return x > lo && x < hi
			}}
	}
	return sqlCond{col: ds.Name, op: op, text: fmt.Sprintf("%s %s %s", ds.Name, op, a),
		eval: func(_ int64, c interface{}) bool { x, l := conv(c, av); return cmpF64(op, x, l) }}
}

// numAt1 reads a single-element column value.
func numAt1(c interface{}) (float64, int64, uint64, string) { return numAt(c, 0) }

func elemCol(col interface{}, i int) interface{} { return pickCol(col, []int{i}) }

// C19 SQL WHERE predicates select exactly the matching rows.
func TestC19(t *testing.T) {
	rec := hx.R("C19")
	rapid.Check(t, func(t *rapid.T) {
		variable := rapid.Bool().Draw(t, "variable")
		sc := genSQLStore(t, rec, variable)
		defer sc.close()
		key := sc.b.Key()
		base, _, err := runSQL(sc.in, fmt.Sprintf("SELECT * FROM `%s`;", key))
		if err != nil {
			t.Fatalf("SELECT *: %v", err)
		}
		if base.Len() == 0 {
			// only possible when every stored row is a 1D bar dated Jan 1 (KF-08a, C08's subject)
			if sc.b.TF == "1D" {
				rec.Exclude("KF-08a")
				return
			}
			t.Fatalf("SELECT * returns no rows")
		}
		nst := rapid.IntRange(3, 10).Draw(t, "nstatements")
		for s := 0; s < nst; s++ {
			k := rapid.IntRange(1, 3).Draw(t, "nconds")
			var conds []sqlCond
			var texts []string
			for i := 0; i < k; i++ {
				c := genCond(t, sc, base)
				conds = append(conds, c)
				texts = append(texts, c.text)
			}
			stmt := fmt.Sprintf("SELECT * FROM `%s` WHERE %s;", key, strings.Join(texts, " AND "))
			got, _, err := runSQL(sc.in, stmt)
			if err != nil {
				t.Fatalf("%s\n -> %v", stmt, err)
			}
			var idx []int
			for i := 0; i < base.Len(); i++ {
				ok := true
				for _, c := range conds {
					var cv interface{}
					if c.col != "Epoch" {
						for ci, n := range base.Names {
							if n == c.col {
								cv = elemCol(base.Cols[ci], i)
							}
						}
					}
					if !c.eval(rowTimeNs(base, i), cv) {
						ok = false
					}
				}
				if ok {
					idx = append(idx, i)
				}
			}
			want := subRows(base, idx)
			if err := sameRows(got, want); err != nil {
				t.Fatalf("%s\n (%s bucket %s, %d stored rows at %v): %v", stmt, map[bool]string{true: "variable", false: "fixed"}[variable], sc.b.TF, base.Len(), headTimes(base), err)
			}
			nt := ""
			if len(idx) > 0 && len(idx) < base.Len() {
				nt = fmt.Sprint(stmt, hx.Hash(fmt.Sprint(base.Epoch, base.Nanos, base.Cols)))
				rec.Sample(map[string]interface{}{"statement": stmt, "rows_stored": base.Len(), "rows_selected": len(idx), "variable": variable})
			}
			cls := []string{fmt.Sprintf("conds=%d", k), fmt.Sprintf("variable=%v", variable)}
			for _, c := range conds {
				cls = append(cls, "op:"+c.op)
			}
			rec.Case(nt, cls...)
		}
	})
	rec.Flush()
}
