package props

import (
	"fmt"
	"math/rand"
	"strings"
	"testing"

	"pgregory.net/rapid"

	"verifharness/crashfs"
	"verifharness/hx"
)

// powerLossVariants enumerates a bounded set of loss/tear patterns of the data
// writes that are not yet durable at crash point k.
func powerLossVariants(cr *crashRun, k int, max int, rng *rand.Rand) []*crashfs.Variant {
	pend := crashfs.Pending(cr.Events, k)
	if len(pend) == 0 {
		return nil
	}
	var all []*crashfs.Variant
	mk := func(desc string, drop []int) *crashfs.Variant {
		v := &crashfs.Variant{Drop: map[int]bool{}, Desc: desc}
		for _, i := range drop {
			v.Drop[i] = true
		}
		return v
	}
	all = append(all, mk("drop every unsynced write", pend))
	var prim, walw []int
	for _, i := range pend {
		if strings.HasSuffix(cr.Events[i].Path, ".bin") {
			prim = append(prim, i)
		} else if strings.HasSuffix(cr.Events[i].Path, ".walfile") {
			walw = append(walw, i)
		}
	}
	if len(prim) > 0 && len(prim) < len(pend) {
		all = append(all, mk("drop unsynced primary-file writes, keep the rest", prim))
	}
	if len(walw) > 0 && len(walw) < len(pend) {
		all = append(all, mk("drop unsynced WAL writes, keep the rest", walw))
	}
	for _, i := range pend {
		all = append(all, mk(fmt.Sprintf("drop only event %d (%s)", i, cr.Events[i].Describe()), []int{i}))
	}
	for j := 1; j < len(pend); j++ {
		all = append(all, mk(fmt.Sprintf("keep only the first %d unsynced writes", j), pend[j:]))
	}
	// tear the last unsynced write of each file at sector boundaries
	last := map[string]int{}
	for _, i := range pend {
		last[cr.Events[i].Path] = i
	}
	for _, i := range last {
		n := len(cr.Events[i].Data)
		cuts := 0
		for c := 512; c < n && cuts < 8; c += 512 * (1 + n/4096) {
			v := &crashfs.Variant{Tear: map[int]int{i: c}, Desc: fmt.Sprintf("tear event %d (%s) after %d bytes", i, cr.Events[i].Describe(), c)}
			all = append(all, v)
			cuts++
		}
		if n > 1 && n <= 512 {
			// short writes cannot be torn at a sector boundary; model loss of the tail write only via drop
			continue
		}
	}
	for r := 0; r < 3; r++ {
		var d []int
		for _, i := range pend {
			if rng.Intn(2) == 0 {
				d = append(d, i)
			}
		}
		if len(d) > 0 && len(d) < len(pend) {
			all = append(all, mk("random subset dropped", d))
		}
	}
	if len(all) <= max {
		return all
	}
	// keep the first two (drop all / drop primary) and a rotating sample of the rest
	out := append([]*crashfs.Variant{}, all[:2]...)
	rest := all[2:]
	rng.Shuffle(len(rest), func(i, j int) { rest[i], rest[j] = rest[j], rest[i] })
	return append(out, rest[:max-2]...)
}

// kf04aVariant: the variant loses (part of) the header or a category_name file of
// a file created since the last global sync.
func kf04aVariant(cr *crashRun, v *crashfs.Variant) bool {
	hit := func(i int) bool {
		e := &cr.Events[i]
		return (strings.HasSuffix(e.Path, ".bin") && e.Off == 0) || strings.HasSuffix(e.Path, "category_name")
	}
	for i := range v.Drop {
		if hit(i) {
			return true
		}
	}
	for i := range v.Tear {
		if hit(i) {
			return true
		}
	}
	return false
}

// taintedVarBuckets: variable-length buckets whose year file is left with index and data
// out of step by this crash state (KF-03a region): some of the file's unsynced writes are
// lost/torn while others are kept, or the crash point itself separates a data rewrite from
// its index update.
func taintedVarBuckets(cr *crashRun, k int, v *crashfs.Variant) map[string]bool {
	out := map[string]bool{}
	isVar := map[string]bool{}
	for _, s := range cr.H.Buckets {
		if s.Variable {
			isVar[s.Bucket().Key()] = true
		}
	}
	keyOf := func(path string) string {
		i := strings.LastIndex(path, "/")
		if i < 0 {
			return ""
		}
		return path[:i]
	}
	if cr.kf03aPoint(k) {
		out[keyOf(kf03aFile(cr.Events, k))] = true
	}
	if v != nil {
		lost, kept := map[string]int{}, map[string]int{}
		for _, i := range crashfs.Pending(cr.Events, k) {
			e := &cr.Events[i]
			if !strings.HasSuffix(e.Path, ".bin") || e.Off < 37024 {
				continue
			}
			_, torn := v.Tear[i]
			if v.Drop[i] || torn {
				lost[keyOf(e.Path)]++
			} else {
				kept[keyOf(e.Path)]++
			}
		}
		for key, n := range lost {
			if n > 0 && kept[key] > 0 && isVar[key] {
				out[key] = true
			}
		}
	}
	for key := range out {
		if !isVar[key] {
			delete(out, key)
		}
	}
	return out
}

// C04 Acknowledged writes survive power loss.
func TestC04(t *testing.T) {
	rec := hx.R("C04")
	oracle := func(cr *crashRun, k int, v *crashfs.Variant, a *restartResult) error {
		tainted := map[string]bool{}
		if hx.KFOpen("KF-03a") {
			tainted = taintedVarBuckets(cr, k, v)
		}
		if !a.OK {
			if len(tainted) > 0 && strings.Contains(a.Stderr, "unable to replay") {
				rec.Exclude("KF-03a")
				rec.KF("KF-03a", "start-up panics when index and data of a variable-length interval are out of step")
				return nil
			}
			return fmt.Errorf("server does not start after the power failure: %s", restartFailure(a))
		}
		for _, bd := range a.Dump.Buckets {
			if bd.Error != "" {
				if tainted[bd.Key] {
					rec.Exclude("KF-03a")
					rec.KF("KF-03a", "variable-length bucket unreadable when index and data of an interval are out of step")
					continue
				}
				return fmt.Errorf("bucket %s existed before the power failure but cannot be queried after restart: %s", bd.Key, bd.Error)
			}
		}
		if len(tainted) > 0 {
			rec.Exclude("KF-03a")
		}
		return checkAckedPresentSkip(cr, k, a.Dump, tainted)
	}
	if cr, r, ok := loadCrashReplay(); ok {
		defer cr.cleanup()
		sa, _ := splitSpecs(cr, r.K)
		a, _, _ := cr.materializeAndRestart(r.K, r.Variant, sa, nil, false)
		if err := oracle(cr, r.K, r.Variant, a); err != nil {
			t.Fatalf("replay crash point %d variant %q: %v", r.K, r.Variant.Desc, err)
		}
		return
	}
	maxVar := envInt("VERIF_MAXVARIANTS", 3)
	rapid.Check(t, func(t *rapid.T) {
		h := genHistory(t, histOpts{minOps: 3, maxOps: envInt("VERIF_MAXOPS", 5), varBias: 40, checkpoints: true, multiPart: true, sameInterval: 40})
		rng := rand.New(rand.NewSource(rapid.Int64().Draw(t, "variantSeed")))
		cr, err := runTraced(h)
		if err != nil {
			t.Fatalf("traced run: %v", err)
		}
		defer cr.cleanup()
		hkey := hx.Hash(histJSON(h))
		for _, k := range crashfs.PowerLossPoints(cr.Events) {
			vs := powerLossVariants(cr, k, maxVar, rng)
			sa, _ := splitSpecs(cr, k)
			if len(sa) == 0 {
				continue // nothing acknowledged yet
			}
			for vi, v := range vs {
				a, _, _ := cr.materializeAndRestart(k, v, sa, nil, false)
				// non-trivial: the variant drops or tears a pending write that belongs to an acknowledged op
				nt := ""
				for op := range cr.Ack {
					if !cr.acked(op, k) {
						continue
					}
					for i := range v.Drop {
						if i > cr.Beg[op] && i < cr.Ack[op] {
							nt = fmt.Sprint(hkey, "/", k, "/", vi, v.Desc)
						}
					}
					for i := range v.Tear {
						if i > cr.Beg[op] && i < cr.Ack[op] {
							nt = fmt.Sprint(hkey, "/", k, "/", vi, v.Desc)
						}
					}
				}
				rec.Case(nt)
				if err := oracle(cr, k, v, a); err != nil {
					if kf04aVariant(cr, v) && hx.KFOpen("KF-04a") {
						rec.Exclude("KF-04a")
						rec.KF("KF-04a", "header/category file of a newly created bucket or year not synced before the acknowledgement")
						continue
					}
					msg := fmt.Sprintf("crash point %d of %d (after %q), power-loss variant %q: %v", k, len(cr.Events), evDesc(cr, k-1), v.Desc, err)
					cr.saveReplay("C04", k, v, msg)
					t.Fatalf("%s\nhistory: %s", msg, histJSON(h))
				}
			}
		}
		rec.Class("histories", 1)
		rec.Sample(map[string]interface{}{"history": h, "events": len(cr.Events), "crash_points": len(crashfs.PowerLossPoints(cr.Events))})
		rec.Flush()
	})
	rec.Flush()
}
