package props

import (
	"fmt"
	"os"
	"regexp"
	"sort"
	"strings"
	"sync"
	"testing"
	"time"

	"github.com/alpacahq/marketstore/v4/plugins/trigger"
	"github.com/alpacahq/marketstore/v4/utils/io"
	"pgregory.net/rapid"

	"verifharness/hx"
)

type recTrigger struct {
	id    int
	mu    *sync.Mutex
	fires *[]firedRec
}

type firedRec struct {
	trig    int
	key     string
	index   int64
	payload string
}

func (r *recTrigger) Fire(keyPath string, records []trigger.Record) {
	r.mu.Lock()
	defer r.mu.Unlock()
	for i := range records {
		rec := records[i]
		*r.fires = append(*r.fires, firedRec{r.id, keyPath, rec.Index(), string(rec.Payload())})
	}
}

// expectedMatch is the documented rule: '*' stands for one path component, everything else
// is literal, and the pattern is matched as a prefix of the file path.
func expectedMatch(on, keyPath string) bool {
	pc, kc := strings.Split(on, "/"), strings.Split(keyPath, "/")
	if len(pc) > len(kc) {
		return false
	}
	for i, p := range pc {
		last := i == len(pc)-1
		switch {
		case p == "*":
			if kc[i] == "" {
				return false
			}
		case last:
			if !strings.HasPrefix(kc[i], p) {
				return false
			}
		default:
			if kc[i] != p {
				return false
			}
		}
	}
	return true
}

func yearIndex(epoch int64, tf time.Duration) (int, int64) {
	tt := time.Unix(epoch, 0).UTC()
	y := tt.Year()
	if tf == 24*time.Hour {
		return y, int64(tt.YearDay() - 1)
	}
	ys := time.Date(y, 1, 1, 0, 0, 0, 0, time.UTC).Unix()
	return y, (epoch-ys)/int64(tf.Seconds()) + 1
}

// C32 Every flushed write reaches matching triggers exactly once.
func TestC32(t *testing.T) {
	rec := hx.R("C32")
	rapid.Check(t, func(t *rapid.T) {
		// bucket names with prefix/suffix overlaps and regexp metacharacters
		symPool := []string{"AA", "XAA", "AAX", "A.A", "AxA", "AA+", "B"}
		groupPool := []string{"OHLCV", "OHLC", "TICK"}
		nb := rapid.IntRange(2, 6).Draw(t, "nbuckets")
		var bs []*hx.Bucket
		seen := map[string]bool{}
		for len(bs) < nb {
			b := &hx.Bucket{Sym: rapid.SampledFrom(symPool).Draw(t, "sym"), TF: rapid.SampledFrom([]string{"1Min", "5Min", "1D"}).Draw(t, "tf"),
				Group: rapid.SampledFrom(groupPool).Draw(t, "group"), Schema: []io.DataShape{{Name: "P", Type: io.FLOAT32}, {Name: "V", Type: io.INT32}}}
			b.Variable = b.Group == "TICK"
			if seen[b.Key()] {
				continue
			}
			seen[b.Key()] = true
			bs = append(bs, b)
		}
		ntr := rapid.IntRange(1, 4).Draw(t, "ntriggers")
		var mu sync.Mutex
		var fires []firedRec
		var ms []*trigger.Matcher
		var ons []string
		for i := 0; i < ntr; i++ {
			comp := func(pool []string, label string) string {
				if rapid.IntRange(0, 2).Draw(t, label+"star") == 0 {
					return "*"
				}
				return rapid.SampledFrom(pool).Draw(t, label)
			}
			on := comp(symPool, "onSym") + "/" + comp([]string{"1Min", "5Min", "1D"}, "onTF") + "/" + comp(groupPool, "onGroup")
			ons = append(ons, on)
			ms = append(ms, trigger.NewMatcher(&recTrigger{id: i, mu: &mu, fires: &fires}, on))
		}
		root := hx.ScratchDir("c32")
		defer os.RemoveAll(root)
		// one case in three: concurrent writers with the background WAL writer (a flushed transaction
		// then carries several requests); the delivered multiset does not depend on the schedule
		nwriters := 1
		opts := hx.InstOpts{Triggers: ms}
		if rapid.IntRange(0, 2).Draw(t, "concurrent") == 0 {
			nwriters = rapid.IntRange(2, 4).Draw(t, "writers")
			opts.WALRefresh = time.Duration(rapid.IntRange(1, 3).Draw(t, "walMs")) * time.Millisecond
			opts.PrimaryRefresh = time.Duration(rapid.IntRange(3, 20).Draw(t, "ckptMs")) * time.Millisecond
			opts.RotateInterval = 2
		}
		in := hx.NewInst(root, opts)
		type prepared struct {
			csm      io.ColumnSeriesMap
			variable bool
		}
		var reqs []prepared
		closed := false
		defer func() {
			if !closed {
				in.Close()
			}
		}()
		var want []firedRec
		nreq := rapid.IntRange(1, 6*nwriters).Draw(t, "nrequests")
		multiFileTG := false
		base := int64(1609459200 - 86400*3) // 2020-12-29: requests may span two years
		for q := 0; q < nreq; q++ {
			k := rapid.IntRange(1, 2).Draw(t, "bucketsInRequest")
			csm := io.NewColumnSeriesMap()
			used := map[int]bool{}
			variable := false
			files := map[string]bool{}
			var pend []firedRec
			for j := 0; j < k; j++ {
				bi := rapid.IntRange(0, len(bs)-1).Draw(t, "bucket")
				if used[bi] || (len(used) > 0 && bs[bi].Variable != variable) {
					continue
				}
				used[bi] = true
				b := bs[bi]
				variable = b.Variable
				tf := hx.TFDuration(b.TF)
				n := rapid.IntRange(1, 5).Draw(t, "nrows")
				slots := map[int64]bool{}
				r := &hx.Rows{Names: []string{"P", "V"}}
				var ps []float32
				var vs []int32
				for len(r.Epoch) < n {
					s := hx.SlotStart(base+int64(tf.Seconds())*rapid.Int64Range(1, 8).Draw(t, "slot"), tf)
					if slots[s] || (b.TF == "1D" && jan1Slot(s)) {
						if len(slots) >= 7 {
							break
						}
						continue
					}
					slots[s] = true
					r.Epoch = append(r.Epoch, s)
					if b.Variable {
						r.Nanos = append(r.Nanos, 0)
					}
					ps = append(ps, float32(rapid.IntRange(1, 1000).Draw(t, "p")))
					vs = append(vs, int32(q*100+len(r.Epoch)))
				}
				r.Cols = []interface{}{ps, vs}
				csm.AddColumnSeries(*b.TBK(), r.ToCS())
				for i, e := range r.Epoch {
					y, idx := yearIndex(e, tf)
					kp := fmt.Sprintf("%s/%d.bin", b.Key(), y)
					files[kp] = true
					payload := string(hx.RowBytes(r, i))
					if b.Variable {
						payload += "\x00\x00\x00\x00" // interval ticks of offset 0
					}
					for ti, on := range ons {
						if expectedMatch(on, kp) {
							pend = append(pend, firedRec{ti, kp, idx, payload})
						}
					}
				}
			}
			if len(used) == 0 {
				continue
			}
			if len(files) >= 2 {
				multiFileTG = true
			}
			reqs = append(reqs, prepared{csm, variable})
			want = append(want, pend...)
		}
		if nwriters == 1 {
			for _, r := range reqs {
				if err := in.W.WriteCSM(r.csm, r.variable); err != nil {
					t.Fatalf("write: %v", err)
				}
			}
		} else {
			var wg sync.WaitGroup
			errs := make([]error, nwriters)
			for w := 0; w < nwriters; w++ {
				wg.Add(1)
				go func(w int) {
					defer wg.Done()
					for i := w; i < len(reqs); i += nwriters {
						if err := in.W.WriteCSM(reqs[i].csm, reqs[i].variable); err != nil {
							errs[w] = err
							return
						}
					}
				}(w)
			}
			wg.Wait()
			for _, err := range errs {
				if err != nil {
					t.Fatalf("concurrent write: %v", err)
				}
			}
		}
		// wait for the dispatcher
		deadline := time.Now().Add(5 * time.Second)
		for time.Now().Before(deadline) {
			mu.Lock()
			n := len(fires)
			mu.Unlock()
			if n >= len(want) {
				break
			}
			time.Sleep(2 * time.Millisecond)
		}
		in.Close()
		closed = true
		time.Sleep(20 * time.Millisecond) // late or duplicate deliveries
		mu.Lock()
		got := append([]firedRec{}, fires...)
		mu.Unlock()
		key := func(f firedRec) string { return fmt.Sprintf("%d|%s|%d|%x", f.trig, f.key, f.index, f.payload) }
		cnt := map[string]int{}
		for _, f := range want {
			cnt[key(f)]++
		}
		for _, f := range got {
			cnt[key(f)]--
		}
		var diffs []string
		for k, c := range cnt {
			if c > 0 {
				diffs = append(diffs, fmt.Sprintf("missing x%d: %s", c, k))
			} else if c < 0 {
				diffs = append(diffs, fmt.Sprintf("unexpected x%d: %s", -c, k))
			}
		}
		sort.Strings(diffs)
		if len(diffs) > 0 {
			if len(diffs) > 6 {
				diffs = diffs[:6]
			}
			t.Fatalf("triggers %v over buckets %v: deliveries (trigger|file|index|payload) differ from the expected multiset:\n  %s", ons, bucketKeys(bs), strings.Join(diffs, "\n  "))
		}
		matchSets := map[string]bool{}
		for _, on := range ons {
			var m []string
			for _, b := range bs {
				if expectedMatch(on, b.Key()+"/2020.bin") {
					m = append(m, b.Key())
				}
			}
			matchSets[fmt.Sprint(m)] = true
		}
		nt := ""
		if len(matchSets) >= 2 && multiFileTG {
			nt = fmt.Sprint(ons, bucketKeys(bs), hx.Hash(fmt.Sprint(want)))
			rec.Sample(map[string]interface{}{"triggers": ons, "buckets": bucketKeys(bs), "requests": nreq, "records_delivered": len(got)})
		}
		rec.Case(nt, fmt.Sprintf("triggers=%d", ntr), fmt.Sprintf("writers=%d", nwriters))
	})
	rec.Flush()
}

func bucketKeys(bs []*hx.Bucket) []string {
	var o []string
	for _, b := range bs {
		o = append(o, b.Key())
	}
	return o
}

var _ = regexp.QuoteMeta
