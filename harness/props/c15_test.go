package props

import (
	"bytes"
	"fmt"
	"os"
	"os/exec"
	"path/filepath"
	"strings"
	"testing"
	"time"

	"github.com/alpacahq/marketstore/v4/frontend"
	"github.com/alpacahq/marketstore/v4/utils/io"
	"pgregory.net/rapid"

	"verifharness/hx"
	"verifharness/wl"
)

type bucketInfo struct {
	Error      string   `json:"error"`
	Timeframe  int64    `json:"timeframe_ns"`
	RecordType int      `json:"record_type"`
	Names      []string `json:"names"`
	Types      []string `json:"types"`
}

// freshInfo asks a fresh server process what it knows about key.
func freshInfo(root, key string) (*bucketInfo, string, error) {
	out := filepath.Join(filepath.Dir(root), "info.json")
	os.Remove(out)
	cmd := exec.Command(filepath.Join(binDir(), "mkinfo"), root, key, out)
	cmd.Env = append(os.Environ(), "GOGC=off", "GOMAXPROCS=1", "TZ=UTC")
	var errb bytes.Buffer
	cmd.Stderr = &errb
	if err := cmd.Run(); err != nil {
		return nil, tail(errb.String(), 1500), err
	}
	var bi bucketInfo
	if err := wl.ReadJSON(out, &bi); err != nil {
		return nil, "", err
	}
	return &bi, "", nil
}

// C15 Bucket schema is preserved across restarts.
func TestC15(t *testing.T) {
	rec := hx.R("C15")
	rapid.Check(t, func(t *rapid.T) {
		tf := rapid.SampledFrom(hx.DiskTimeframes[3:]).Draw(t, "tf")
		variable := rapid.Bool().Draw(t, "variable")
		ncols := rapid.OneOf(rapid.IntRange(1, 6), rapid.IntRange(1, 300), rapid.IntRange(250, 1100)).Draw(t, "ncols")
		longNameCase := rapid.IntRange(0, 5).Draw(t, "longNameCase") == 0
		nameGen := rapid.OneOf(
			rapid.StringMatching(`[A-Za-z][A-Za-z0-9_]{0,11}`),
			rapid.StringMatching(`[A-Za-z]{20,27}`),
			rapid.SampledFrom([]string{"ünïcödé", "価格", "Цена_закр", "a b", "x.y", "q/r"}),
		)
		if longNameCase {
			nameGen = rapid.OneOf(
				rapid.StringMatching(`[A-Za-z]{28,36}`),
				rapid.Map(rapid.IntRange(33, 80), func(n int) string { return strings.Repeat("N", n) }),
				rapid.SampledFrom([]string{"Цена_закрытия_очень_длинное_имя", ""}),
				rapid.StringMatching(`[A-Za-z][A-Za-z0-9_]{0,11}`),
			)
		}
		wide1D := !variable && rapid.IntRange(0, 5).Draw(t, "wide1D") == 0
		if wide1D {
			tf = "1D"
			ncols = rapid.IntRange(61, 80).Draw(t, "wideCols")
		}
		var schema []io.DataShape
		seen := map[string]bool{"Epoch": true, "Nanoseconds": true}
		longName, multibyte := false, false
		for i := 0; i < ncols; i++ {
			nm := nameGen.Draw(t, "name")
			if ncols > 20 {
				nm = fmt.Sprintf("%s_%d", nm, i)
			}
			for seen[nm] {
				nm += "x"
			}
			seen[nm] = true
			typ := rapid.SampledFrom(hx.WireTypes).Draw(t, "type")
			if wide1D {
				typ = io.STRING16
			}
			if len(nm) > 32 {
				longName = true
			}
			if len(nm) != len([]rune(nm)) {
				multibyte = true
			}
			schema = append(schema, io.DataShape{Name: nm, Type: typ})
		}
		b := &hx.Bucket{Sym: "SC", TF: tf, Group: "G", Variable: variable, Schema: schema}
		dir := hx.ScratchDir("c15")
		defer os.RemoveAll(dir)
		root := filepath.Join(dir, "root")
		in := hx.NewInst(root, hx.InstOpts{})
		closed := false
		defer func() {
			if !closed {
				in.Close()
			}
		}()
		var createErr error
		func() {
			defer func() {
				if r := recover(); r != nil {
					t.Fatalf("Create panics for a schema of %d columns (longest name %d bytes): %v", ncols, maxNameLen(schema), r)
				}
			}()
			createErr = in.Create(b)
		}()
		cls := []string{fmt.Sprintf("variable=%v", variable)}
		if createErr != nil {
			// a schema that cannot be stored may be rejected - but only for a reason
			if ncols <= 1024 && !longName && !hasOddName(schema) {
				t.Fatalf("Create rejected a storable schema (%d columns, tf %s): %v", ncols, tf, createErr)
			}
			rec.Case("", append(cls, "create-rejected")...)
			return
		}
		// writes: first slot of the current year, a later slot, a new year
		year := time.Now().UTC().Year()
		y0 := time.Date(year, 1, 1, 0, 0, 0, 0, time.UTC).Unix()
		tfSec := int64(hx.TFDuration(tf).Seconds())
		nwrites := rapid.IntRange(0, 3).Draw(t, "nwrites")
		jan1Write := false
		for w := 0; w < nwrites; w++ {
			e := rapid.SampledFrom([]int64{y0, y0 + tfSec, y0 + 5*tfSec, y0 - tfSec, y0 + 40*86400}).Draw(t, "epoch")
			if e == y0 {
				jan1Write = true
			}
			r := &hx.Rows{Epoch: []int64{e}}
			if variable {
				r.Nanos = []int32{int32(w)}
			}
			for _, ds := range schema {
				r.Names = append(r.Names, ds.Name)
				r.Cols = append(r.Cols, hx.GenColumnBits(t, ds.Type, 1, "v"))
			}
			if err := in.WriteVia(b, r, 1); err != nil {
				t.Fatalf("write with the created schema rejected: %v", err)
			}
		}
		in.Close()
		closed = true
		// KF-08a: a 1D record dated Jan 1 has interval index 0 and is written below the data area,
		// i.e. into the tail of the header; with a wide record it overwrites the type table
		kf08a := tf == "1D" && jan1Write && hx.KFOpen("KF-08a")
		info, stderr, err := freshInfo(root, b.Key())
		if kf08a && (err != nil || info.Error != "" || !sameSchema(info, schema)) {
			rec.Exclude("KF-08a")
			rec.KF("KF-08a", "1D record dated Jan 1 written into the file header damages the stored schema")
			rec.Case("", append(cls, "kf-08a")...)
			return
		}
		if err != nil {
			t.Fatalf("fresh server process fails on the bucket (%d columns, %s, longest name %d bytes, %d writes): %v\n%s", ncols, tf, maxNameLen(schema), nwrites, err, stderr)
		}
		desc := fmt.Sprintf("bucket %s (%d columns, variable=%v, %d writes, Jan-1 write %v)", b.Key(), ncols, variable, nwrites, jan1Write)
		if info.Error != "" {
			t.Fatalf("%s: after restart GetInfo fails: %s", desc, info.Error)
		}
		if time.Duration(info.Timeframe) != hx.TFDuration(tf) {
			t.Fatalf("%s: timeframe after restart %v, created with %v", desc, time.Duration(info.Timeframe), hx.TFDuration(tf))
		}
		wantRT := 0
		if variable {
			wantRT = 1
		}
		if info.RecordType != wantRT {
			t.Fatalf("%s: record type after restart %d, created with %d", desc, info.RecordType, wantRT)
		}
		if len(info.Names) != ncols+1 || info.Names[0] != "Epoch" {
			t.Fatalf("%s: %d columns after restart (%v...), created with Epoch + %d", desc, len(info.Names), headStr(info.Names), ncols)
		}
		for i, ds := range schema {
			if info.Names[i+1] != ds.Name {
				t.Fatalf("%s: column %d is %q after restart, created as %q (%d bytes)", desc, i, info.Names[i+1], ds.Name, len(ds.Name))
			}
			if info.Types[i+1] != hx.TypeStr[ds.Type] {
				t.Fatalf("%s: column %q has type %s after restart, created as %s", desc, ds.Name, info.Types[i+1], hx.TypeStr[ds.Type])
			}
		}
		// the restarted server enforces that schema
		in2 := hx.NewInst(root, hx.InstOpts{})
		defer in2.Close()
		r := &hx.Rows{Epoch: []int64{y0 + 7*tfSec}}
		if variable {
			r.Nanos = []int32{1}
		}
		for _, ds := range schema {
			r.Names = append(r.Names, ds.Name)
			r.Cols = append(r.Cols, hx.GenColumnBits(t, ds.Type, 1, "v2"))
		}
		if err := in2.WriteVia(b, r, 1); err != nil {
			t.Fatalf("%s: after restart a write with the created schema is rejected: %v", desc, err)
		}
		r.Names = append([]string{}, r.Names...)
		r.Names[0] = r.Names[0] + "_other"
		if err := in2.WriteVia(b, r, 1); err == nil {
			t.Fatalf("%s: after restart a write with a different column name (%q) is accepted", desc, r.Names[0])
		}
		nt := ""
		if longName || multibyte || ncols > 256 || (wide1D && jan1Write) {
			nt = fmt.Sprint(tf, variable, ncols, hx.Hash(fmt.Sprint(schema)), nwrites)
			rec.Sample(map[string]interface{}{"tf": tf, "variable": variable, "columns": ncols, "longest_name_bytes": maxNameLen(schema), "writes": nwrites, "wide_1D": wide1D})
		}
		if ncols > 256 {
			cls = append(cls, "columns>256")
		}
		if wide1D {
			cls = append(cls, "wide-1D")
		}
		rec.Case(nt, cls...)
	})
	rec.Flush()
}

func sameSchema(info *bucketInfo, schema []io.DataShape) bool {
	if len(info.Names) != len(schema)+1 {
		return false
	}
	for i, ds := range schema {
		if info.Names[i+1] != ds.Name || info.Types[i+1] != hx.TypeStr[ds.Type] {
			return false
		}
	}
	return true
}

func maxNameLen(s []io.DataShape) int {
	m := 0
	for _, d := range s {
		if len(d.Name) > m {
			m = len(d.Name)
		}
	}
	return m
}

// hasOddName: names the header cannot hold faithfully for another reason than length.
func hasOddName(s []io.DataShape) bool {
	for _, d := range s {
		if d.Name == "" || strings.ContainsRune(d.Name, 0) {
			return true
		}
	}
	return false
}

func headStr(s []string) []string {
	if len(s) > 6 {
		return s[:6]
	}
	return s
}

var _ = frontend.Queryable
