package props

import (
	"bytes"
	"crypto/md5"
	"encoding/binary"
	"fmt"
	"os"
	"sync"
	"testing"
	"time"

	"github.com/alpacahq/marketstore/v4/utils/io"
	"pgregory.net/rapid"

	"verifharness/hx"
)

// walCommitted parses a WAL file image and returns the payloads of every transaction
// group that is complete, checksum-valid and followed by its WAL COMMITCOMPLETE record.
func walCommitted(img []byte) [][]byte {
	var out [][]byte
	var pending []byte
	var pendingID int64
	i := 0
	for i < len(img) {
		switch img[i] {
		case 0: // TGDATA
			if i+9 > len(img) {
				return out
			}
			n := int64(binary.LittleEndian.Uint64(img[i+1:]))
			if n < 16 || int64(i)+9+n+16 > int64(len(img)) {
				return out
			}
			data := img[i+9 : int64(i)+9+n]
			sum := img[int64(i)+9+n : int64(i)+9+n+16]
			h := md5.New()
			h.Write(img[i+1 : i+9])
			h.Write(data)
			if !bytes.Equal(h.Sum(nil), sum) {
				return out
			}
			pending, pendingID = data, int64(binary.LittleEndian.Uint64(data))
			i += 9 + int(n) + 16
		case 1: // TXNINFO
			if i+11 > len(img) {
				return out
			}
			id := int64(binary.LittleEndian.Uint64(img[i+1:]))
			if img[i+9] == 0 && img[i+10] == 2 && pending != nil && id == pendingID {
				out = append(out, pending)
				pending = nil
			}
			i += 11
		case 2: // STATUS
			i += 11
		default:
			return out
		}
	}
	return out
}

// C07 A write returns only after it is durable (in a committed WAL record) and visible.
func TestC07(t *testing.T) {
	rec := hx.R("C07")
	rapid.Check(t, func(t *rapid.T) {
		nw := rapid.SampledFrom([]int{2, 3, 4, 8, 16}).Draw(t, "writers")
		per := rapid.IntRange(5, 40).Draw(t, "writesPerWriter")
		shared := rapid.Bool().Draw(t, "sharedBucket")
		production := rapid.IntRange(0, 3).Draw(t, "productionTimers") == 0
		variable := rapid.IntRange(0, 3).Draw(t, "variable") == 0
		root := hx.ScratchDir("c07")
		defer os.RemoveAll(root)
		o := hx.InstOpts{WALRefresh: time.Duration(rapid.IntRange(1, 5).Draw(t, "walRefreshMs")) * time.Millisecond, PrimaryRefresh: time.Hour, RotateInterval: 100}
		if production {
			o = hx.InstOpts{Background: true}
		}
		in := hx.NewInst(root, o)
		defer in.Close()
		schema := []io.DataShape{{Name: "Tag", Type: io.INT64}, {Name: "W", Type: io.INT32}}
		base := int64(1583020800)
		type failure struct{ msg string }
		var mu sync.Mutex
		var fails []string
		var multiAck int64
		var wg sync.WaitGroup
		start := make(chan struct{})
		for w := 0; w < nw; w++ {
			wg.Add(1)
			go func(w int) {
				defer wg.Done()
				sym := fmt.Sprintf("W%d", w)
				if shared {
					sym = "SH"
				}
				b := &hx.Bucket{Sym: sym, TF: "1Min", Group: "G", Variable: variable, Schema: schema}
				<-start
				for i := 0; i < per; i++ {
					tag := int64(w+1)<<32 | int64(i+1)
					e := base + 60*int64(w*per+i)
					r := &hx.Rows{Epoch: []int64{e}, Names: []string{"Tag", "W"}, Cols: []interface{}{[]int64{tag}, []int32{int32(w)}}}
					if variable {
						r.Nanos = []int32{int32(i)}
					}
					if err := in.WriteVia(b, r, 1); err != nil {
						mu.Lock()
						fails = append(fails, fmt.Sprintf("writer %d write %d rejected: %v", w, i, err))
						mu.Unlock()
						return
					}
					// (a) a query that starts now sees the row
					got, err := in.Query(b, time.Unix(e, 0).UTC(), time.Unix(e+59, 999999999).UTC(), 0, false, nil)
					seen := false
					if err == nil {
						for ci, n := range got.Names {
							if n == "Tag" {
								for _, v := range got.Cols[ci].([]int64) {
									if v == tag {
										seen = true
									}
								}
							}
						}
					}
					// (b) the row is inside a committed transaction group of the WAL file
					img, _ := os.ReadFile(in.WAL.FilePtr.Name())
					var tb [8]byte
					binary.LittleEndian.PutUint64(tb[:], uint64(tag))
					inWAL := false
					for _, tg := range walCommitted(img) {
						if bytes.Contains(tg, tb[:]) {
							inWAL = true
							if bytes.Count(tg, []byte("/G/2020.bin")) > 1 {
								mu.Lock()
								multiAck++
								mu.Unlock()
							}
						}
					}
					if !seen || !inWAL {
						mu.Lock()
						fails = append(fails, fmt.Sprintf("writer %d write %d (tag %d, bucket %s): returned success but visible to a query=%v (err %v), in a committed WAL transaction group=%v",
							w, i, tag, b.Key(), seen, err, inWAL))
						mu.Unlock()
					}
				}
			}(w)
		}
		close(start)
		wg.Wait()
		if len(fails) > 0 {
			n := len(fails)
			if n > 5 {
				fails = fails[:5]
			}
			t.Fatalf("%d of %d acknowledged writes were not durable/visible at return (writers=%d shared=%v production timers=%v):\n  %s",
				n, nw*per, nw, shared, production, joinLines(fails))
		}
		nt := ""
		if multiAck > 0 {
			nt = fmt.Sprint(nw, per, shared, production, variable, multiAck)
			rec.Sample(map[string]interface{}{"writers": nw, "writes_per_writer": per, "shared_bucket": shared, "production_timers": production,
				"writes_acknowledged_from_a_TG_shared_with_other_writes": multiAck})
		}
		rec.Case(nt, fmt.Sprintf("writers=%d", nw), fmt.Sprintf("production=%v", production), fmt.Sprintf("shared=%v", shared))
		rec.Add("writes_checked", int64(nw*per))
	})
	rec.Flush()
}

func joinLines(l []string) string {
	s := ""
	for i, x := range l {
		if i > 0 {
			s += "\n  "
		}
		s += x
	}
	return s
}
