package props

import (
	"bytes"
	"crypto/sha1"
	"encoding/json"
	"fmt"
	"os"
	"os/exec"
	"path/filepath"
	"sort"
	"strings"
	"testing"

	"pgregory.net/rapid"

	"verifharness/hx"
)

type jailOp struct {
	Kind string `json:"kind"`
	Key  string `json:"key"`
}

// snapshotTree lists everything under top except the subtree skip: path, type, size, content hash.
func snapshotTree(top, skip string) map[string]string {
	out := map[string]string{}
	filepath.Walk(top, func(p string, fi os.FileInfo, err error) error {
		if err != nil {
			return nil
		}
		if p == skip {
			return filepath.SkipDir
		}
		rel, _ := filepath.Rel(top, p)
		if fi.IsDir() {
			out[rel] = "dir"
			return nil
		}
		h := ""
		if fi.Size() < 8<<20 {
			b, _ := os.ReadFile(p)
			h = fmt.Sprintf("%x", sha1.Sum(b))
		}
		out[rel] = fmt.Sprintf("file size=%d sha1=%s", fi.Size(), h)
		return nil
	})
	return out
}

// C16 No request can touch files outside the data root.
func TestC16(t *testing.T) {
	rec := hx.R("C16")
	// "root", "root2", "root.bak", "other", "l5": names of (and names sharing a prefix with) the directories
	// around the data root, so that a key can leave the root and come back or land beside it
	comps := []string{"..", "..", "..", ".", "", "x", "SYM", "a b", "~", `\`, "価格", strings.Repeat("L", 300), "...", "..x", "G",
		"root", "root2", "root.bak", "other", "l5"}
	rapid.Check(t, func(t *rapid.T) {
		jail := hx.ScratchDir("jail")
		defer os.RemoveAll(jail)
		// data root six levels below the jail root, next to decoy trees
		rel := "l1/l2/l3/l4/l5/root"
		root := filepath.Join(jail, rel)
		os.MkdirAll(root, 0o770)
		decoy := filepath.Join(jail, "l1/l2/l3/l4/l5/other")
		os.MkdirAll(filepath.Join(decoy, "SYM/1Min/G"), 0o770)
		os.WriteFile(filepath.Join(decoy, "category_name"), []byte("Symbol"), 0o640)
		os.WriteFile(filepath.Join(decoy, "SYM/category_name"), []byte("Timeframe"), 0o640)
		os.WriteFile(filepath.Join(decoy, "SYM/1Min/category_name"), []byte("AttributeGroup"), 0o640)
		os.WriteFile(filepath.Join(decoy, "SYM/1Min/G/category_name"), []byte("Year"), 0o640)
		os.WriteFile(filepath.Join(decoy, "SYM/1Min/G/2020.bin"), bytes.Repeat([]byte{7}, 40000), 0o640)
		os.WriteFile(filepath.Join(jail, "l1/keep.txt"), []byte("do not touch"), 0o640)
		os.WriteFile(filepath.Join(jail, "l1/l2/l3/l4/l5/sibling.txt"), []byte("do not touch either"), 0o640)
		os.MkdirAll(filepath.Join(jail, "1Min/G"), 0o770)

		nops := rapid.IntRange(1, 8).Draw(t, "nops")
		var ops []jailOp
		escaping := 0
		var lastKey string
		for i := 0; i < nops; i++ {
			kind := rapid.SampledFrom([]string{"create", "create", "write", "write", "query", "getinfo", "destroy"}).Draw(t, "kind")
			key := lastKey
			if lastKey == "" || rapid.IntRange(0, 2).Draw(t, "reuseKey") != 0 {
				ncat := rapid.SampledFrom([]int{3, 3, 3, 4, 5, 6, 2, 1}).Draw(t, "ncomponents")
				tfPos := rapid.IntRange(0, ncat-1).Draw(t, "timeframePosition")
				if ncat == 3 && rapid.Bool().Draw(t, "defaultCategories") {
					tfPos = 1
				}
				var items, cats []string
				for c := 0; c < ncat; c++ {
					if c == tfPos {
						items = append(items, "1Min")
						cats = append(cats, "Timeframe")
						continue
					}
					items = append(items, rapid.SampledFrom(comps).Draw(t, "component"))
					switch {
					case c == 0:
						cats = append(cats, "Symbol")
					case c == ncat-1:
						cats = append(cats, "AttributeGroup")
					default:
						cats = append(cats, fmt.Sprintf("C%d", c))
					}
				}
				key = strings.Join(items, "/")
				if !(ncat == 3 && tfPos == 1 && rapid.Bool().Draw(t, "omitCategories")) || kind == "create" {
					key += ":" + strings.Join(cats, "/")
				}
				lastKey = key
			}
			itemPart := strings.SplitN(key, ":", 2)[0]
			cleaned := filepath.Join("/"+rel, itemPart)
			if !strings.HasPrefix(cleaned+"/", "/"+rel+"/") {
				escaping++
			}
			ops = append(ops, jailOp{Kind: kind, Key: key})
		}
		b, _ := json.Marshal(ops)
		os.WriteFile(filepath.Join(jail, "ops.json"), b, 0o640)
		before := snapshotTree(jail, root)
		cmd := exec.Command(filepath.Join(binDir(), "jailworker"), jail, "/"+rel, "/ops.json")
		cmd.Env = append(os.Environ(), "GOGC=off", "TZ=UTC")
		var outb, errb bytes.Buffer
		cmd.Stdout, cmd.Stderr = &outb, &errb
		runErr := cmd.Run()
		if strings.Contains(outb.String(), "NOJAIL") {
			t.Fatalf("cannot chroot in this sandbox: %s", outb.String())
		}
		after := snapshotTree(jail, root)
		var diffs []string
		for p, v := range after {
			if bv, ok := before[p]; !ok {
				diffs = append(diffs, "created: "+p+" ("+v+")")
			} else if bv != v {
				diffs = append(diffs, "modified: "+p)
			}
		}
		for p := range before {
			if _, ok := after[p]; !ok {
				diffs = append(diffs, "deleted: "+p)
			}
		}
		sort.Strings(diffs)
		cls := []string{}
		if runErr != nil || !strings.Contains(outb.String(), "DONE") {
			cls = append(cls, "worker-died(not asserted)")
		}
		if len(diffs) > 0 {
			if len(diffs) > 8 {
				diffs = diffs[:8]
			}
			hx.SaveReplay("C16", map[string]interface{}{"ops": ops, "outside_root_changes": diffs})
			t.Fatalf("requests %s changed the file system outside the data root (%s):\n  %s\nworker output:\n%.800s", string(b), rel, strings.Join(diffs, "\n  "), outb.String())
		}
		nt := ""
		if escaping > 0 {
			nt = string(b)
			rec.Sample(map[string]interface{}{"ops": ops, "keys_escaping_the_root_lexically": escaping, "worker_output": firstLines(outb.String(), 6)})
		}
		rec.Case(nt, cls...)
	})
	rec.Flush()
}
