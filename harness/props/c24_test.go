package props

import (
	"fmt"
	"os"
	"sort"
	"sync"
	"sync/atomic"
	"testing"
	"time"

	"github.com/alpacahq/marketstore/v4/contrib/ondiskagg/aggtrigger"
	"github.com/alpacahq/marketstore/v4/plugins/trigger"
	"github.com/alpacahq/marketstore/v4/utils/io"
	"pgregory.net/rapid"

	"verifharness/hx"
)

// waitTrigger wraps the real aggregation trigger and records, per interval index, how many
// Fire calls that carried a record of that interval have completed. (A request can be split
// over two transaction groups by a timer flush and then fires the trigger twice.)
type waitTrigger struct {
	inner trigger.Trigger
	done  *int64
	mu    sync.Mutex
	seen  map[int64]int
}

func (w *waitTrigger) Fire(keyPath string, records []trigger.Record) {
	w.inner.Fire(keyPath, records)
	w.mu.Lock()
	for i := range records {
		w.seen[records[i].Index()]++
	}
	w.mu.Unlock()
	atomic.AddInt64(w.done, 1)
}

func (w *waitTrigger) snapshot() map[int64]int {
	w.mu.Lock()
	defer w.mu.Unlock()
	o := make(map[int64]int, len(w.seen))
	for k, v := range w.seen {
		o[k] = v
	}
	return o
}

type bar struct {
	o, h, l, c float32
	v          int32
}

// C24 On-disk aggregation matches the base data.
func TestC24(t *testing.T) {
	rec := hx.R("C24")
	ohlcv := []io.DataShape{{Name: "Open", Type: io.FLOAT32}, {Name: "High", Type: io.FLOAT32}, {Name: "Low", Type: io.FLOAT32}, {Name: "Close", Type: io.FLOAT32}, {Name: "Volume", Type: io.INT32}}
	rapid.Check(t, func(t *rapid.T) {
		dests := rapid.SampledFrom([][]string{{"5Min"}, {"1H"}, {"5Min", "1H"}, {"15Min", "1D"}, {"5Min", "15Min", "1H"}, {"1D"}}).Draw(t, "destinations")
		conf := map[string]interface{}{"destinations": toIface(dests), "filter": ""}
		inner, err := aggtrigger.NewTrigger(conf)
		if err != nil {
			t.Fatalf("NewTrigger: %v", err)
		}
		var fired int64
		wt := &waitTrigger{inner: inner, done: &fired, seen: map[int64]int{}}
		m := trigger.NewMatcher(wt, "*/1Min/OHLCV")
		root := hx.ScratchDir("c24")
		defer os.RemoveAll(root)
		// background WAL writer, as in production: the trigger itself writes (the destination
		// buckets), and only the WAL writer goroutine serialises flushes of several goroutines.
		// The harness waits until a completed Fire has carried every interval of the request.
		in := hx.NewInst(root, hx.InstOpts{Triggers: []*trigger.Matcher{m}, WALRefresh: 2 * time.Second, PrimaryRefresh: 5 * time.Second, RotateInterval: 3})
		defer in.Close()
		base := &hx.Bucket{Sym: "AG", TF: "1Min", Group: "OHLCV", Schema: ohlcv}
		model := map[int64]bar{}
		day0 := int64(1583020800) + 86400*rapid.Int64Range(0, 3).Draw(t, "day") // March 2020, away from Jan 1
		nreq := rapid.IntRange(1, 7).Draw(t, "nrequests")
		corrections, outOfOrder := 0, 0
		maxSeen := int64(0)
		expectedFires := int64(0)
		for q := 0; q < nreq; q++ {
			n := rapid.IntRange(1, 8).Draw(t, "nbars")
			// minutes within two days: clustered so that windows get several bars and corrections happen
			startMin := rapid.Int64Range(0, 2*1440-10).Draw(t, "startMinute")
			if rapid.IntRange(0, 2).Draw(t, "nearBoundary") == 0 {
				startMin = rapid.SampledFrom([]int64{55, 1435, 1438, 58, 0, 1440}).Draw(t, "boundaryMinute")
			}
			set := map[int64]bool{}
			var mins []int64
			for len(mins) < n {
				mm := startMin + rapid.Int64Range(0, 12).Draw(t, "minuteOffset")
				if !set[mm] {
					set[mm] = true
					mins = append(mins, mm)
				}
			}
			sort.Slice(mins, func(i, j int) bool { return mins[i] < mins[j] }) // rows of a request in time order
			r := &hx.Rows{Names: []string{"Open", "High", "Low", "Close", "Volume"}}
			var o, h, l, c []float32
			var v []int32
			for _, mm := range mins {
				e := day0 + mm*60
				lo := float32(rapid.IntRange(1, 500).Draw(t, "low"))
				hi := lo + float32(rapid.IntRange(0, 50).Draw(t, "range"))
				b := bar{o: lo + float32(rapid.IntRange(0, 50).Draw(t, "open"))*(hi-lo)/50, h: hi, l: lo, c: lo + float32(rapid.IntRange(0, 50).Draw(t, "close"))*(hi-lo)/50, v: int32(rapid.IntRange(0, 1000).Draw(t, "vol"))}
				if _, ok := model[e]; ok {
					corrections++
				}
				if e < maxSeen {
					outOfOrder++
				}
				if e > maxSeen {
					maxSeen = e
				}
				model[e] = b
				r.Epoch = append(r.Epoch, e)
				o, h, l, c, v = append(o, b.o), append(h, b.h), append(l, b.l), append(c, b.c), append(v, b.v)
			}
			r.Cols = []interface{}{o, h, l, c, v}
			before := wt.snapshot()
			if err := in.WriteVia(base, r, 1); err != nil {
				t.Fatalf("base write: %v", err)
			}
			expectedFires++
			deadline := time.Now().Add(10 * time.Second)
			for {
				now := wt.snapshot()
				all := true
				for _, e := range r.Epoch {
					_, idx := yearIndex(e, time.Minute)
					if now[idx] <= before[idx] {
						all = false
					}
				}
				if all {
					break
				}
				if time.Now().After(deadline) {
					t.Fatalf("aggregation trigger did not process every bar of request %d within 10 s", q)
				}
				time.Sleep(500 * time.Microsecond)
			}
		}
		if atomic.LoadInt64(&fired) != expectedFires {
			// a timer flush split one request into two transaction groups, whose Fire calls run
			// concurrently: that is a schedule, not a history (the property quantifies over
			// histories "once all writes have been processed"); counted, not asserted
			rec.Case("", "request-split-by-timer-flush:not-asserted")
			return
		}
		// compare every destination with the aggregation of the base bucket's current content
		cur, err := in.QueryAll(base)
		if err != nil {
			t.Fatalf("base query: %v", err)
		}
		if cur.Len() != len(model) {
			t.Fatalf("base bucket has %d bars, model %d", cur.Len(), len(model))
		}
		for _, d := range dests {
			dsec := int64(hx.TFDuration(d).Seconds())
			type agg struct {
				first, last int64
				o, h, l, c  float32
				v           int64
			}
			wins := map[int64]*agg{}
			for e, b := range model {
				w := e - e%dsec
				a := wins[w]
				if a == nil {
					a = &agg{first: e, last: e, o: b.o, h: b.h, l: b.l, c: b.c}
					wins[w] = a
				}
				if e <= a.first {
					a.first, a.o = e, b.o
				}
				if e >= a.last {
					a.last, a.c = e, b.c
				}
				if b.h > a.h {
					a.h = b.h
				}
				if b.l < a.l {
					a.l = b.l
				}
				a.v += int64(b.v)
			}
			db := &hx.Bucket{Sym: "AG", TF: d, Group: "OHLCV", Schema: ohlcv}
			got, err := in.QueryAll(db)
			if err != nil {
				t.Fatalf("destination %s query: %v", d, err)
			}
			var ws []int64
			for w := range wins {
				ws = append(ws, w)
			}
			sort.Slice(ws, func(i, j int) bool { return ws[i] < ws[j] })
			desc := fmt.Sprintf("destination %s after %d requests (%d corrections, %d out-of-order bars)", d, nreq, corrections, outOfOrder)
			if got.Len() != len(ws) {
				t.Fatalf("%s: %d bars, the base data has bars in %d windows (got %v, want %v)", desc, got.Len(), len(ws), got.Epoch, ws)
			}
			col := func(name string) interface{} {
				for i, n := range got.Names {
					if n == name {
						return got.Cols[i]
					}
				}
				return nil
			}
			go_, gh, gl, gc := col("Open").([]float32), col("High").([]float32), col("Low").([]float32), col("Close").([]float32)
			for i, w := range ws {
				a := wins[w]
				if got.Epoch[i] != w {
					t.Fatalf("%s: bar %d at %d, want window start %d", desc, i, got.Epoch[i], w)
				}
				var gv int64
				switch vv := col("Volume").(type) {
				case []int32:
					gv = int64(vv[i])
				case []int64:
					gv = vv[i]
				case []float32:
					gv = int64(vv[i])
				case []float64:
					gv = int64(vv[i])
				}
				if go_[i] != a.o || gh[i] != a.h || gl[i] != a.l || gc[i] != a.c || gv != a.v {
					t.Fatalf("%s: window %s: stored O/H/L/C/V %v/%v/%v/%v/%v, the base bars currently in that window give %v/%v/%v/%v/%v",
						desc, time.Unix(w, 0).UTC().Format("2006-01-02T15:04"), go_[i], gh[i], gl[i], gc[i], gv, a.o, a.h, a.l, a.c, a.v)
				}
			}
		}
		nt := ""
		if corrections+outOfOrder > 0 {
			nt = fmt.Sprint(dests, hx.Hash(fmt.Sprint(model)), nreq)
			rec.Sample(map[string]interface{}{"destinations": dests, "requests": nreq, "base_bars": len(model), "corrections": corrections, "out_of_order_bars": outOfOrder})
		}
		rec.Case(nt, fmt.Sprintf("destinations=%v", dests))
	})
	rec.Flush()
}

func toIface(s []string) []interface{} {
	o := make([]interface{}, len(s))
	for i, x := range s {
		o[i] = x
	}
	return o
}
