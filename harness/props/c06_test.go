package props

import (
	"crypto/md5"
	"encoding/binary"
	"fmt"
	"os"
	"path/filepath"
	"strings"
	"testing"

	"pgregory.net/rapid"

	"verifharness/crashfs"
	"verifharness/hx"
	"verifharness/wl"
)

// tgRange locates one transaction group inside the recorded WAL file.
type tgRange struct {
	op         int
	start, end int64 // whole group: TXNINFO(prepare) .. TXNINFO(commit complete)
	dStart     int64 // TGDATA message: MID, length, data, checksum
	dEnd       int64
	lenOff     int64 // offset of the 8-byte length field
	dataOff    int64
	dataLen    int64
}

// walLayout derives the TG ranges from the recorded WAL writes of a sync-mode run.
func walLayout(cr *crashRun) (walPath string, tgs []tgRange) {
	for op := 0; op < len(cr.H.Ops); op++ {
		b, okb := cr.Beg[op]
		a, oka := cr.Ack[op]
		if !okb || !oka || cr.H.Ops[op].Kind != "write" {
			continue
		}
		var ws []*crashfs.Event
		for i := b; i < a; i++ {
			e := &cr.Events[i]
			if e.Kind == crashfs.EvWrite && strings.HasSuffix(e.Path, ".walfile") {
				ws = append(ws, e)
				walPath = e.Path
			}
		}
		// expected: TXNINFO(11) MID(1) len(8) data(n) cksum(16) TXNINFO(11)
		if len(ws) != 6 || len(ws[0].Data) != 11 || len(ws[1].Data) != 1 || len(ws[2].Data) != 8 || len(ws[4].Data) != 16 || len(ws[5].Data) != 11 {
			continue
		}
		tgs = append(tgs, tgRange{op: op, start: ws[0].Off, end: ws[5].Off + 11, dStart: ws[1].Off, dEnd: ws[4].Off + 16,
			lenOff: ws[2].Off, dataOff: ws[3].Off, dataLen: int64(len(ws[3].Data))})
	}
	return walPath, tgs
}

type walMutation struct {
	Kind   string `json:"kind"`
	Off    int64  `json:"off,omitempty"`
	N      int    `json:"n,omitempty"`
	Bytes  []byte `json:"bytes,omitempty"`
	TG     int    `json:"tg,omitempty"`
	TG2    int    `json:"tg2,omitempty"`
	Val    int64  `json:"val,omitempty"`
	Field  string `json:"field,omitempty"`
	Result []byte `json:"-"`
}

func resum(wal []byte, tg tgRange) {
	h := md5.New()
	h.Write(wal[tg.lenOff : tg.lenOff+8])
	h.Write(wal[tg.dataOff : tg.dataOff+tg.dataLen])
	copy(wal[tg.dataOff+tg.dataLen:], h.Sum(nil))
}

// applyMutation returns the mutated WAL plus the set of ops whose TGDATA bytes changed
// and the offset of the first changed byte.
func applyMutation(orig []byte, tgs []tgRange, m *walMutation) (out []byte, damaged map[int]bool, first int64, dup bool) {
	damaged = map[int]bool{}
	out = append([]byte{}, orig...)
	markRange := func(lo, hi int64) { // bytes [lo,hi) of the ORIGINAL changed or removed
		for _, tg := range tgs {
			if lo < tg.dEnd && hi > tg.dStart {
				damaged[tg.op] = true
			}
		}
	}
	first = int64(len(orig))
	switch m.Kind {
	case "truncate":
		out = out[:m.Off]
		markRange(m.Off, int64(len(orig)))
		first = m.Off
	case "flip":
		for i := 0; i < m.N; i++ {
			o := m.Off + int64(i)*7
			if o < int64(len(out)) {
				out[o] ^= 1 << uint(i%8)
				markRange(o, o+1)
				if o < first {
					first = o
				}
			}
		}
	case "overwrite":
		for i, b := range m.Bytes {
			o := m.Off + int64(i)
			if o < int64(len(out)) {
				if out[o] != b {
					markRange(o, o+1)
					if o < first {
						first = o
					}
				}
				out[o] = b
			}
		}
	case "insert":
		out = append(append(append([]byte{}, orig[:m.Off]...), m.Bytes...), orig[m.Off:]...)
		// a TG whose data message straddles the insertion point is damaged
		for _, tg := range tgs {
			if m.Off > tg.dStart && m.Off < tg.dEnd {
				damaged[tg.op] = true
			}
		}
		first = m.Off
	case "duplicate":
		tg := tgs[m.TG]
		at := tgs[m.TG2].end
		out = append(append(append([]byte{}, orig[:at]...), orig[tg.start:tg.end]...), orig[at:]...)
		first = at
		dup = true
	case "swap":
		a, b := tgs[m.TG], tgs[m.TG+1]
		out = append([]byte{}, orig[:a.start]...)
		out = append(out, orig[b.start:b.end]...)
		out = append(out, orig[a.end:b.start]...)
		out = append(out, orig[a.start:a.end]...)
		out = append(out, orig[b.end:]...)
		first = a.start
	case "length":
		tg := tgs[m.TG]
		binary.LittleEndian.PutUint64(out[tg.lenOff:], uint64(m.Val))
		markRange(tg.lenOff, tg.lenOff+8)
		first = tg.lenOff
	case "adversarial":
		// change a field inside the TG payload and recompute the checksum: a checksum-valid
		// record with hostile contents
		tg := tgs[m.TG]
		p := out[tg.dataOff : tg.dataOff+tg.dataLen]
		switch m.Field {
		case "wtcount":
			binary.LittleEndian.PutUint64(p[8:], uint64(m.Val))
		case "fplen":
			binary.LittleEndian.PutUint16(p[17:], uint16(m.Val))
		case "datalen":
			fpl := int(binary.LittleEndian.Uint16(p[17:]))
			if 19+fpl+4 <= len(p) {
				binary.LittleEndian.PutUint32(p[19+fpl:], uint32(m.Val))
			}
		case "path":
			fpl := int(binary.LittleEndian.Uint16(p[17:]))
			for i := 0; i < fpl && i < len(m.Bytes); i++ {
				p[19+i] = m.Bytes[i]
			}
		case "rectype":
			p[16] = byte(m.Val)
		}
		resum(out, tg)
		damaged[tg.op] = true
		first = tg.dStart
	}
	return out, damaged, first, dup
}

func genMutation(t *rapid.T, wal []byte, tgs []tgRange) *walMutation {
	n := int64(len(wal))
	kinds := []string{"truncate", "flip", "overwrite", "insert", "length", "adversarial", "truncate", "flip"}
	if len(tgs) >= 2 {
		kinds = append(kinds, "duplicate", "swap")
	}
	kind := rapid.SampledFrom(kinds).Draw(t, "mutation")
	// offsets: biased to record boundaries and field positions
	var hot []int64
	for _, tg := range tgs {
		hot = append(hot, tg.start, tg.dStart, tg.lenOff, tg.lenOff+7, tg.dataOff, tg.dataOff+8, tg.dataOff+tg.dataLen, tg.dEnd-1, tg.dEnd, tg.end-1, tg.end)
	}
	offGen := rapid.OneOf(rapid.SampledFrom(hot), rapid.Int64Range(0, n-1), rapid.Int64Range(0, 11))
	m := &walMutation{Kind: kind}
	switch kind {
	case "truncate":
		m.Off = offGen.Draw(t, "off")
		if m.Off > n {
			m.Off = n
		}
	case "flip":
		m.Off = offGen.Draw(t, "off")
		if m.Off >= n {
			m.Off = n - 1
		}
		m.N = rapid.IntRange(1, 3).Draw(t, "nflips")
	case "overwrite", "insert":
		m.Off = offGen.Draw(t, "off")
		if m.Off > n {
			m.Off = n
		}
		m.Bytes = rapid.SliceOfN(rapid.OneOf(rapid.Byte(), rapid.SampledFrom([]byte{0, 1, 2, 0xff})), 1, 64).Draw(t, "garbage")
	case "duplicate":
		m.TG = rapid.IntRange(0, len(tgs)-1).Draw(t, "tg")
		m.TG2 = rapid.IntRange(m.TG, len(tgs)-1).Draw(t, "after")
	case "swap":
		m.TG = rapid.IntRange(0, len(tgs)-2).Draw(t, "tg")
	case "length":
		m.TG = rapid.IntRange(0, len(tgs)-1).Draw(t, "tg")
		m.Val = rapid.SampledFrom([]int64{-1, -1 << 62, 0, 1, 7, 15, 16, 1 << 40, 1<<63 - 1, int64(tgs[m.TG].dataLen) - 1, int64(tgs[m.TG].dataLen) + 1, n * 999}).Draw(t, "len")
	case "adversarial":
		m.TG = rapid.IntRange(0, len(tgs)-1).Draw(t, "tg")
		// only structure-preserving edits: the record stays a valid transaction with odd contents
		// (records whose internal lengths contradict each other cannot result from damage, which
		// the checksum catches, and are outside the property's domain)
		m.Field = "path"
		m.Val = rapid.SampledFrom([]int64{-1, 0, 1, 2, 255, 32767, 65535, 1 << 20, 1<<31 - 1, 1 << 40}).Draw(t, "val")
		m.Bytes = []byte(rapid.SampledFrom([]string{"../../../x/y/z/2020.bin", "NOPE/1Min/G/2020.bin", "////////////////////////", "A0/1Min/G/1999.bin\x00\x00\x00\x00\x00\x00"}).Draw(t, "path"))
	}
	return m
}

// C06 WAL replay tolerates arbitrary damage to the log.
func TestC06(t *testing.T) {
	rec := hx.R("C06")
	nMut := envInt("VERIF_MUTATIONS", 14)
	var rp struct {
		History  *wl.History  `json:"history"`
		Mutation *walMutation `json:"mutation"`
	}
	replaying := hx.LoadReplay(&rp)
	if replaying {
		nMut = 1
	}
	rapid.Check(t, func(t *rapid.T) {
		var h *wl.History
		if replaying {
			h = rp.History
		} else {
			h = genHistory(t, histOpts{minOps: 3, maxOps: 6, varBias: 35, checkpoints: false, multiPart: true, sameInterval: 30})
		}
		cr, err := runTraced(h)
		if err != nil {
			t.Fatalf("traced run: %v", err)
		}
		defer cr.cleanup()
		walRel, tgs := walLayout(cr)
		if len(tgs) < 2 {
			t.Fatalf("WAL layout not recognised: %d transaction groups found", len(tgs))
		}
		// base state: everything synced to the WAL, no primary data written yet (headers only)
		base := &crashfs.Variant{Drop: map[int]bool{}}
		for i, e := range cr.Events {
			if e.Kind == crashfs.EvWrite && strings.HasSuffix(e.Path, ".bin") && e.Off >= 37024 {
				base.Drop[i] = true
			}
		}
		rows := historyRows(h)
		specs := h.Buckets
		for mi := 0; mi < nMut; mi++ {
			dir := hx.ScratchDir("c06")
			root := filepath.Join(dir, "root")
			if err := crashfs.Materialize(cr.Events, len(cr.Events), base, root); err != nil {
				t.Fatalf("materialize: %v", err)
			}
			walFile := filepath.Join(root, walRel)
			orig, err := os.ReadFile(walFile)
			if err != nil {
				t.Fatalf("read wal: %v", err)
			}
			var m *walMutation
			if replaying {
				m = rp.Mutation
			} else {
				m = genMutation(t, orig, tgs)
			}
			mut, damaged, first, dup := applyMutation(orig, tgs, m)
			if err := os.WriteFile(walFile, mut, 0o600); err != nil {
				t.Fatalf("write wal: %v", err)
			}
			res := restartOn(root, specs, "A")
			os.RemoveAll(dir)
			desc := fmt.Sprintf("mutation %+v (first changed byte %d of %d; TG ranges %v)", *m, first, len(orig), tgSummary(tgs))
			nt := ""
			if len(damaged) > 0 || m.Kind == "length" || m.Kind == "duplicate" || m.Kind == "swap" {
				nt = fmt.Sprint(hx.Hash(histJSON(h)), m.Kind, m.Off, m.N, m.TG, m.TG2, m.Val, m.Field, hx.Hash(m.Bytes))
			}
			rec.Case(nt, "mutation:"+m.Kind)
			if !res.OK {
				msg := fmt.Sprintf("start-up fails on a damaged WAL: %s\n%s", restartFailure(res), desc)
				hx.SaveReplay("C06", map[string]interface{}{"history": h, "mutation": m, "failure": msg, "wal_hex": fmt.Sprintf("%x", mut)})
				t.Fatalf("%s\nhistory: %s", msg, histJSON(h))
			}
			// which tags are present
			present := map[int64]bool{}
			for _, bd := range res.Dump.Buckets {
				for _, tg := range bd.Tag {
					present[tg] = true
				}
			}
			movedAside := false
			for _, f := range res.Dump.WALFiles {
				if strings.HasSuffix(f, ".tmp") {
					movedAside = true
				}
			}
			fail := func(msg string) {
				var tags []string
				for _, bd := range res.Dump.Buckets {
					tags = append(tags, fmt.Sprintf("%s:%v", bd.Key, bd.Tag))
				}
				msg += fmt.Sprintf(" [tags after restart %v; WAL files %v]", tags, res.Dump.WALFiles)
				hx.SaveReplay("C06", map[string]interface{}{"history": h, "mutation": m, "failure": msg, "wal_hex": fmt.Sprintf("%x", mut)})
				t.Fatalf("%s\n%s\nhistory: %s", msg, desc, histJSON(h))
			}
			for _, tg := range tgs {
				var mine []wrRow
				for _, w := range rows {
					if w.op == tg.op && w.lastInOp {
						mine = append(mine, w)
					}
				}
				if damaged[tg.op] {
					for _, w := range mine {
						if present[w.tag] {
							fail(fmt.Sprintf("data of the damaged transaction (op %d, tag %d) was written to bucket %s", tg.op, w.tag, h.Buckets[w.bucket].Sym))
						}
					}
					continue
				}
				if tg.end <= first {
					// intact, committed, precedes the damage: must be applied
					for _, w := range mine {
						if !present[w.tag] && !overwrittenLater(h, rows, w, damaged, present) {
							if fo := forgedCheckpointAt(orig, mut, tgs); fo >= 0 && tg.end <= fo && hx.KFOpen("KF-06g") {
								rec.Exclude("KF-06g")
								rec.KF("KF-06g", "a transaction-info record damaged into 'CHECKPOINT COMMITCOMPLETE' makes replay discard the intact transactions before it")
								goto nextTG
							}
							if dup && movedAside && hx.KFOpen("KF-06d") {
								rec.Exclude("KF-06d")
								rec.KF("KF-06d", "a WAL containing the same transaction group twice is moved aside and nothing is replayed")
								goto nextTG
							}
							fail(fmt.Sprintf("intact committed transaction (op %d, tag %d, WAL bytes [%d,%d)) preceding the damage at %d was not applied (WAL moved aside: %v)",
								tg.op, w.tag, tg.start, tg.end, first, movedAside))
						}
					}
				}
			nextTG:
			}
			if mi == 0 {
				rec.Sample(map[string]interface{}{"history": h, "wal_bytes": len(orig), "transaction_groups": len(tgs), "mutation": m})
			}
		}
		rec.Flush()
	})
	rec.Flush()
}

// forgedCheckpointAt: the signature of KF-06g. Transaction-info records (11 bytes: id 1, TGID,
// destination, status) carry no checksum; if the damage turns one of the original log's
// transaction-info records into "destination CHECKPOINT, status COMMITCOMPLETE" (a single bit of
// the destination byte of a WAL commit record is enough), replay believes that everything up to
// that TGID is already in the primary files. Returns the offset of the first such record, or -1.
// Only length-preserving damage is considered (the record positions of the original still hold).
func forgedCheckpointAt(orig, mut []byte, tgs []tgRange) int64 {
	if len(orig) != len(mut) {
		return -1
	}
	for _, tg := range tgs {
		for _, off := range []int64{tg.start, tg.end - 11} {
			if off < 0 || off+11 > int64(len(mut)) {
				continue
			}
			o, m := orig[off:off+11], mut[off:off+11]
			if m[0] == 1 && m[9] == 1 && m[10] == 2 && !(o[9] == 1 && o[10] == 2) {
				return off
			}
		}
	}
	return -1
}

// overwrittenLater: w went to a fixed-length interval that a later, undamaged transaction of the
// history also wrote, and that later value is what the bucket holds (replay applies transactions
// in commit order, so the earlier value is legitimately gone).
func overwrittenLater(h *wl.History, rows []wrRow, w wrRow, damaged map[int]bool, present map[int64]bool) bool {
	if h.Buckets[w.bucket].Variable {
		return false
	}
	for _, w2 := range rows {
		if w2.bucket == w.bucket && w2.slot == w.slot && w2.op > w.op && w2.lastInOp && !damaged[w2.op] && present[w2.tag] {
			return true
		}
	}
	return false
}

func tgSummary(tgs []tgRange) string {
	var b strings.Builder
	for _, tg := range tgs {
		fmt.Fprintf(&b, "op%d:[%d,%d) ", tg.op, tg.start, tg.end)
	}
	return b.String()
}

var _ = wl.Schema
