package props

import (
	"bytes"
	"context"
	"fmt"
	"os"
	"path/filepath"
	"strings"
	"sync"
	"testing"

	"github.com/alpacahq/marketstore/v4/executor"
	"github.com/alpacahq/marketstore/v4/executor/wal"
	"github.com/alpacahq/marketstore/v4/utils/io"
	"pgregory.net/rapid"

	"verifharness/hx"
)

// recSender records the serialized transaction groups the WAL writer produces.
type recSender struct {
	mu  sync.Mutex
	tgs [][]byte
}

func (r *recSender) Run(context.Context) {}
func (r *recSender) Send(tg []byte) {
	r.mu.Lock()
	r.tgs = append(r.tgs, append([]byte{}, tg...))
	r.mu.Unlock()
}
func (r *recSender) take() [][]byte {
	r.mu.Lock()
	defer r.mu.Unlock()
	o := r.tgs
	r.tgs = nil
	return o
}

var (
	c28Once sync.Once
	c28Inst *hx.Inst
	c28Send *recSender
)

// C28 WAL transaction records round-trip: commands of the shape the write path
// produces -> FlushCommandsToWAL (serializeTG) -> ParseTGData.
func TestC28(t *testing.T) {
	rec := hx.R("C28")
	root := hx.ScratchDir("c28")
	defer os.RemoveAll(root)
	send := &recSender{}
	in := hx.NewInst(root, hx.InstOpts{Sender: send})
	defer func() { in.Close() }()
	cases := 0
	rapid.Check(t, func(t *rapid.T) {
		// the instance's WAL file grows with every case (up to MBs each, on tmpfs): start afresh regularly
		if cases++; cases%150 == 0 {
			in.Close()
			os.RemoveAll(root)
			in = hx.NewInst(root, hx.InstOpts{Sender: send})
		}
		nCmd := rapid.IntRange(1, 5).Draw(t, "ncommands")
		var cmds []*wal.WriteCommand
		maxNameLen, maxCols := 0, 0
		relatedSchemas := false
		for c := 0; c < nCmd; c++ {
			variable := rapid.Bool().Draw(t, "variable")
			// key path: Symbol/Timeframe/Group/Year.bin with long or odd (but slash-free) components
			comp := rapid.OneOf(rapid.StringMatching(`[A-Za-z0-9_.\-]{1,12}`), rapid.Map(rapid.IntRange(200, 1300), func(n int) string { return strings.Repeat("Ab3", n/3+1)[:n] }))
			key := filepath.Join(comp.Draw(t, "sym"), rapid.SampledFrom(hx.DiskTimeframes).Draw(t, "tf"), comp.Draw(t, "group"),
				fmt.Sprintf("%d.bin", rapid.IntRange(1970, 2100).Draw(t, "year")))
			ncols := rapid.OneOf(rapid.IntRange(1, 6), rapid.IntRange(1, 255), rapid.IntRange(200, 300)).Draw(t, "ncols")
			dsv := []io.DataShape{{Name: "Epoch", Type: io.INT64}}
			if c > 0 && rapid.IntRange(0, 2).Draw(t, "relatedSchema") == 0 {
				// as in real transactions, consecutive commands often go to buckets with the same column
				// names: identical schema, or the same names with some element types changed, or one
				// column more / fewer
				relatedSchema := cmds[c-1].DataShapes
				relatedSchemas = true
				dsv = append([]io.DataShape{}, relatedSchema...)
				switch rapid.IntRange(0, 3).Draw(t, "relation") {
				case 1:
					for i := 1; i < len(dsv); i++ {
						if rapid.IntRange(0, 2).Draw(t, "retype") == 0 {
							dsv[i].Type = rapid.SampledFrom(hx.WireTypes).Draw(t, "type")
						}
					}
				case 2:
					if len(dsv) > 2 {
						dsv = dsv[:len(dsv)-1]
					}
				case 3:
					dsv = append(dsv, io.DataShape{Name: "Extra", Type: rapid.SampledFrom(hx.WireTypes).Draw(t, "type")})
				}
				ncols = len(dsv) - 1
			} else {
				for i := 0; i < ncols; i++ {
					nm := rapid.OneOf(rapid.StringMatching(`[A-Za-z][A-Za-z0-9_]{0,11}`), rapid.StringMatching(`[A-Za-z]{20,32}`)).Draw(t, "name")
					dsv = append(dsv, io.DataShape{Name: nm, Type: rapid.SampledFrom(hx.WireTypes).Draw(t, "type")})
				}
			}
			for _, ds := range dsv {
				if len(ds.Name) > maxNameLen {
					maxNameLen = len(ds.Name)
				}
			}
			if ncols+1 > maxCols {
				maxCols = ncols + 1
			}
			dlen := rapid.OneOf(rapid.Just(0), rapid.IntRange(0, 64), rapid.IntRange(0, 5000), rapid.IntRange(100000, 1000000)).Draw(t, "datalen")
			data := make([]byte, dlen)
			seed := rapid.Uint32().Draw(t, "dataseed")
			for i := range data {
				seed = seed*1664525 + 1013904223
				data[i] = byte(seed >> 24)
			}
			rt := io.FIXED
			vrl := 0
			if variable {
				rt = io.VARIABLE
				vrl = rapid.IntRange(5, 300).Draw(t, "varreclen")
			}
			cmds = append(cmds, &wal.WriteCommand{RecordType: rt, WALKeyPath: key, VarRecLen: vrl,
				Offset: rapid.Int64Range(37024, 1<<40).Draw(t, "offset"), Index: rapid.Int64Range(0, 40000000).Draw(t, "index"),
				Data: data, DataShapes: dsv})
		}
		send.take()
		if err := in.WAL.FlushCommandsToWAL(cmds); err != nil {
			t.Fatalf("FlushCommandsToWAL: %v", err)
		}
		tgs := send.take()
		if len(tgs) != 1 {
			t.Fatalf("%d transaction groups produced, want 1", len(tgs))
		}
		_, sets := executor.ParseTGData(tgs[0], root)
		kf := maxCols > 255 && hx.KFOpen("KF-28a")
		fail := func(format string, a ...interface{}) {
			if kf {
				rec.Exclude("KF-28a")
				rec.KF("KF-28a", "transaction group with more than 255 data shapes does not decode")
				t.Skip("KF-28a")
			}
			t.Fatalf(format, a...)
		}
		if len(sets) != len(cmds) {
			fail("decoded %d write sets, encoded %d", len(sets), len(cmds))
		}
		for i, c := range cmds {
			s := sets[i]
			if s.RecordType != c.RecordType {
				fail("write %d: record type %v, want %v", i, s.RecordType, c.RecordType)
			}
			if s.FilePath != filepath.Join(root, c.WALKeyPath) {
				fail("write %d: target file %.80q, want %.80q", i, s.FilePath, filepath.Join(root, c.WALKeyPath))
			}
			if s.VarRecLen != c.VarRecLen {
				fail("write %d: varRecLen %d, want %d", i, s.VarRecLen, c.VarRecLen)
			}
			if s.Buffer.Offset() != c.Offset || s.Buffer.Index() != c.Index {
				fail("write %d: offset/index %d/%d, want %d/%d", i, s.Buffer.Offset(), s.Buffer.Index(), c.Offset, c.Index)
			}
			if !bytes.Equal(s.Buffer.Payload(), c.Data) {
				fail("write %d: payload of %d bytes differs (decoded %d bytes)", i, len(c.Data), len(s.Buffer.Payload()))
			}
			if fmt.Sprint(s.DataShapes) != fmt.Sprint(c.DataShapes) {
				fail("write %d: column schema %.120v, want %.120v", i, s.DataShapes, c.DataShapes)
			}
		}
		nt := ""
		if nCmd >= 2 || maxCols >= 128 || maxNameLen >= 20 {
			nt = fmt.Sprint(hx.Hash(tgs[0]))
			rec.Sample(map[string]interface{}{"commands": nCmd, "max_columns": maxCols, "max_name_len": maxNameLen, "tg_bytes": len(tgs[0]),
				"first_path_len": len(cmds[0].WALKeyPath)})
		}
		cls := []string{fmt.Sprintf("commands=%d", nCmd)}
		if maxCols > 255 {
			cls = append(cls, "columns>255")
		}
		if relatedSchemas {
			cls = append(cls, "consecutive-commands-with-related-schemas")
		}
		rec.Case(nt, cls...)
	})
	rec.Flush()
}

var _ = strings.Contains
