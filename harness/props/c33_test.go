package props

import (
	"bytes"
	"fmt"
	"os"
	"path/filepath"
	"strconv"
	"strings"
	"testing"
	"time"
	_ "time/tzdata"

	"github.com/alpacahq/marketstore/v4/cmd/connect/loader"
	"github.com/alpacahq/marketstore/v4/cmd/connect/session"
	"github.com/alpacahq/marketstore/v4/frontend"
	"github.com/alpacahq/marketstore/v4/utils/io"
	"pgregory.net/rapid"

	"verifharness/hx"
)

// fakeAPI answers GetBucketInfo from a schema and records Write requests.
type fakeAPI struct {
	dsv      []io.DataShape
	variable bool
	writes   []*io.NumpyMultiDataset
}

func (f *fakeAPI) PrintConnectInfo() {}
func (f *fakeAPI) Create(*frontend.MultiCreateRequest, *frontend.MultiServerResponse) error {
	return nil
}
func (f *fakeAPI) Write(reqs *frontend.MultiWriteRequest, _ *frontend.MultiServerResponse) error {
	for _, r := range reqs.Requests {
		f.writes = append(f.writes, r.Data)
	}
	return nil
}
func (f *fakeAPI) Destroy(*frontend.MultiKeyRequest, *frontend.MultiServerResponse) error {
	return nil
}
func (f *fakeAPI) Show(*io.TimeBucketKey, *time.Time, *time.Time) (io.ColumnSeriesMap, error) {
	return nil, nil
}
func (f *fakeAPI) GetBucketInfo(_ *frontend.MultiKeyRequest, resp *frontend.MultiGetInfoResponse) error {
	rt := io.FIXED
	if f.variable {
		rt = io.VARIABLE
	}
	resp.Responses = append(resp.Responses, frontend.GetInfoResponse{LatestYear: 2020, TimeFrame: time.Minute, DSV: f.dsv, RecordType: rt})
	return nil
}
func (f *fakeAPI) SQL(string) (*io.ColumnSeries, error) { return nil, nil }

func fmtCell(typ io.EnumElementType, col interface{}, i int) string {
	switch c := col.(type) {
	case []int8:
		return strconv.FormatInt(int64(c[i]), 10)
	case []int16:
		return strconv.FormatInt(int64(c[i]), 10)
	case []int32:
		return strconv.FormatInt(int64(c[i]), 10)
	case []int64:
		return strconv.FormatInt(c[i], 10)
	case []uint8:
		return strconv.FormatUint(uint64(c[i]), 10)
	case []uint16:
		return strconv.FormatUint(uint64(c[i]), 10)
	case []uint32:
		return strconv.FormatUint(uint64(c[i]), 10)
	case []uint64:
		return strconv.FormatUint(c[i], 10)
	case []float32:
		return strconv.FormatFloat(float64(c[i]), 'g', -1, 32)
	case []float64:
		return strconv.FormatFloat(c[i], 'g', -1, 64)
	}
	panic("fmtCell")
}

// C33 CSV import loads every row or reports an error.
func TestC33(t *testing.T) {
	rec := hx.R("C33")
	rapid.Check(t, func(t *rapid.T) {
		schema := hx.GenSchema(t, 4, hx.NumericTypes)
		// the loader maps CSV columns to bucket columns case-independently (documented in
		// ReadMetadata): column names that differ only in case are outside its domain
		seenCI := map[string]bool{"epoch": true}
		for i := range schema {
			for seenCI[strings.ToLower(schema[i].Name)] {
				schema[i].Name += "x"
			}
			seenCI[strings.ToLower(schema[i].Name)] = true
		}
		variable := rapid.Bool().Draw(t, "variable")
		zone := rapid.SampledFrom([]string{"UTC", "Asia/Tokyo", "America/New_York"}).Draw(t, "zone")
		loc, _ := time.LoadLocation(zone)
		n := rapid.OneOf(rapid.IntRange(1, 6), rapid.IntRange(1, 60), rapid.IntRange(1, 400)).Draw(t, "rows")
		// valid data
		epochs := make([]int64, n)
		cur := time.Date(2020, 6, 1, 0, 0, 0, 0, time.UTC).Unix() + rapid.Int64Range(0, 86400*20).Draw(t, "start")
		for i := range epochs {
			epochs[i] = cur
			cur += rapid.Int64Range(0, 7200).Draw(t, "step")
		}
		cols := make([]interface{}, len(schema))
		for ci, ds := range schema {
			if ds.Type == io.FLOAT32 || ds.Type == io.FLOAT64 {
				cols[ci] = genNumericValues(t, ds.Type, n, ds.Name)
			} else {
				cols[ci] = hx.GenColumnBits(t, ds.Type, n, ds.Name)
			}
		}
		// fault injection: at most one faulty row
		fault := rapid.SampledFrom([]string{"none", "none", "fewer-fields", "more-fields", "bad-number", "bad-time", "bare-quote", "unbalanced-quote", "empty-number"}).Draw(t, "fault")
		faultRow := rapid.IntRange(0, n-1).Draw(t, "faultRow")
		faultCol := rapid.IntRange(0, len(schema)-1).Draw(t, "faultCol")
		quoteValid := rapid.Bool().Draw(t, "quoteSomeCells")
		blankLines := rapid.Bool().Draw(t, "blankLines")
		var sb strings.Builder
		hdr := []string{"Epoch"}
		for _, ds := range schema {
			hdr = append(hdr, ds.Name)
		}
		sb.WriteString(strings.Join(hdr, ",") + "\n")
		for i := 0; i < n; i++ {
			cells := []string{time.Unix(epochs[i], 0).In(loc).Format("2006-01-02 15:04:05")}
			for ci, ds := range schema {
				c := fmtCell(ds.Type, cols[ci], i)
				if quoteValid && (i+ci)%3 == 0 {
					c = `"` + c + `"`
				}
				cells = append(cells, c)
			}
			if fault != "none" && i == faultRow {
				switch fault {
				case "fewer-fields":
					cells = cells[:len(cells)-1]
				case "more-fields":
					cells = append(cells, "99")
				case "bad-number":
					cells[1+faultCol] = "12x4"
				case "empty-number":
					cells[1+faultCol] = ""
				case "bad-time":
					cells[0] = "2020-13-45 99:00:00"
				case "bare-quote":
					cells[1+faultCol] = `1"2`
				case "unbalanced-quote":
					cells[1+faultCol] = `"12`
				}
			}
			sb.WriteString(strings.Join(cells, ",") + "\n")
			if blankLines && i%5 == 2 {
				sb.WriteString("\n")
			}
		}
		dir := hx.ScratchDir("c33")
		defer os.RemoveAll(dir)
		csvPath, ctlPath := filepath.Join(dir, "data.csv"), filepath.Join(dir, "ctl.yaml")
		os.WriteFile(csvPath, []byte(sb.String()), 0o644)
		os.WriteFile(ctlPath, []byte(fmt.Sprintf("firstRowHasColumnNames: true\ntimeFormat: \"2006-01-02 15:04:05\"\ntimeZone: \"%s\"\n", zone)), 0o644)
		dsv := append([]io.DataShape{{Name: "Epoch", Type: io.INT64}}, schema...)
		api := &fakeAPI{dsv: dsv, variable: variable}
		tbk := io.NewTimeBucketKey("CSV/1Min/G")
		viaCommand := rapid.Bool().Draw(t, "viaLoadCommand")
		chunk := rapid.OneOf(rapid.IntRange(1, 5), rapid.IntRange(1, 100), rapid.IntRange(1, 1000)).Draw(t, "chunk")
		var loadErr error
		func() {
			defer func() {
				if r := recover(); r != nil {
					t.Fatalf("import panics (fault %s in row %d of %d, chunk %d, viaLoadCommand=%v): %v\nfile:\n%.600s", fault, faultRow, n, chunk, viaCommand, r, sb.String())
				}
			}()
			if viaCommand {
				c := session.NewClient(api)
				loadErr = c.VerifLoad(fmt.Sprintf(`\load %s %s %s`, "CSV/1Min/G", csvPath, ctlPath))
				return
			}
			// the loop of session.load with a generated chunk size
			dfd, _ := os.Open(csvPath)
			cfd, _ := os.Open(ctlPath)
			defer dfd.Close()
			rdr, cvm, err := loader.ReadMetadata(dfd, cfd, dsv)
			if err != nil {
				loadErr = err
				return
			}
			for {
				npm, end, err := loader.CSVtoNumpyMulti(rdr, *tbk, cvm, chunk, variable)
				if err != nil {
					loadErr = err
					return
				}
				if npm != nil {
					api.writes = append(api.writes, npm)
				}
				if end {
					break
				}
			}
		}()
		cls := []string{"fault:" + fault, fmt.Sprintf("viaLoadCommand=%v", viaCommand)}
		nt := ""
		if fault != "none" && faultRow >= 1 {
			nt = fmt.Sprint(fault, faultRow, faultCol, n, chunk, viaCommand, hx.Hash(sb.String()))
			rec.Sample(map[string]interface{}{"fault": fault, "fault_row": faultRow, "rows": n, "chunk": chunk, "via_load_command": viaCommand, "zone": zone,
				"csv_head": firstLines(sb.String(), 4)})
		}
		rec.Case(nt, cls...)
		if loadErr != nil {
			if fault == "none" {
				t.Fatalf("import of a valid file (%d rows, zone %s, chunk %d) fails: %v\nfile:\n%.600s", n, zone, chunk, loadErr, sb.String())
			}
			return // an error was reported: allowed
		}
		// no error: every data row must have been written, with the parsed values
		var gotEpoch []int64
		gotCols := make([][]byte, len(schema))
		for _, w := range api.writes {
			csm, err := w.ToColumnSeriesMap()
			if err != nil {
				t.Fatalf("written dataset undecodable: %v", err)
			}
			for _, cs := range csm {
				ep, _ := cs.GetColumn("Epoch").([]int64)
				gotEpoch = append(gotEpoch, ep...)
				for ci, ds := range schema {
					col := cs.GetColumn(ds.Name)
					if col == nil {
						t.Fatalf("written dataset lacks column %s", ds.Name)
					}
					if gt := hx.GoTypeOf(col); gt != hx.ExpectedGoType(ds.Type) {
						t.Fatalf("column %s written as %s, bucket type %s", ds.Name, gt, hx.ExpectedGoType(ds.Type))
					}
					gotCols[ci] = append(gotCols[ci], hx.ColBytes(col)...)
				}
				if !variable && cs.GetColumn("Nanoseconds") != nil {
					t.Fatalf("Nanoseconds column sent to a fixed-length bucket")
				}
			}
		}
		if fault != "none" {
			t.Fatalf("import reports success although row %d of %d is faulty (%s); %d rows were written (chunk %d, viaLoadCommand=%v)\nfile:\n%.600s",
				faultRow, n, fault, len(gotEpoch), chunk, viaCommand, sb.String())
		}
		if len(gotEpoch) != n {
			t.Fatalf("%d rows written, file has %d data rows (chunk %d)", len(gotEpoch), n, chunk)
		}
		for i := range epochs {
			if gotEpoch[i] != epochs[i] {
				t.Fatalf("row %d: Epoch %d written, file says %s in %s = %d", i, gotEpoch[i], time.Unix(epochs[i], 0).In(loc).Format("2006-01-02 15:04:05"), zone, epochs[i])
			}
		}
		for ci, ds := range schema {
			if !bytes.Equal(gotCols[ci], hx.ColBytes(cols[ci])) {
				t.Fatalf("column %s (%s): written values differ from the file's", ds.Name, hx.TypeStr[ds.Type])
			}
		}
	})
	rec.Flush()
}

func firstLines(s string, n int) string {
	l := strings.SplitN(s, "\n", n+1)
	if len(l) > n {
		l = l[:n]
	}
	return strings.Join(l, "\\n")
}
