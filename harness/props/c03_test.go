package props

import (
	"encoding/json"
	"fmt"
	"strings"
	"testing"

	"verifharness/crashfs"
	"verifharness/hx"
	"verifharness/wl"
)

// C03 Restart after a crash succeeds and leaves data readable (process-crash model;
// the power-loss variants are enumerated by C04, which asserts C03's relation too).
func TestC03(t *testing.T) {
	rec := hx.R("C03")
	runCrashSweep(t, crashSweepCfg{
		prop: "C03", rec: rec,
		opts: histOpts{minOps: 3, maxOps: envInt("VERIF_MAXOPS", 7), varBias: 75, checkpoints: true, multiPart: true, sameInterval: 70, destroys: true},
		oracle: func(cr *crashRun, k int, a, b *restartResult) error {
			return checkRestartOK(cr, k, a, rec)
		},
		ntPoint: func(cr *crashRun, k int) bool {
			// strictly inside a primary-file write sequence: previous and next mutating events are
			// writes to the same year file
			if k <= 0 || k >= len(cr.Events) {
				return false
			}
			a, b := &cr.Events[k-1], &cr.Events[k]
			return a.Kind == crashfs.EvWrite && b.Kind == crashfs.EvWrite && a.Path == b.Path && strings.HasSuffix(a.Path, ".bin")
		},
	})
}

func checkRestartOK(cr *crashRun, k int, a *restartResult, rec *hx.Rec) error {
	if !a.OK {
		if cr.kf03aPoint(k) && hx.KFOpen("KF-03a") && strings.Contains(a.Stderr, "unable to replay") {
			rec.Exclude("KF-03a")
			rec.KF("KF-03a", "start-up panics after a crash between in-place data rewrite and index update")
			return nil
		}
		return fmt.Errorf("server does not start after the crash: %s", restartFailure(a))
	}
	for _, bd := range a.Dump.Buckets {
		if bd.Error != "" {
			// KF-03a's window without a replay of that interval: start-up succeeds, but the interval's
			// index record still carries the old length for the rewritten bytes
			if cr.kf03aPoint(k) && hx.KFOpen("KF-03a") && strings.HasPrefix(kf03aFile(cr.Events, k), bd.Key+"/") &&
				(strings.Contains(bd.Error, "snappy") || strings.Contains(bd.Error, "EOF")) {
				rec.Exclude("KF-03a")
				rec.KF("KF-03a", "bucket unreadable after a crash between in-place data rewrite and index update")
				continue
			}
			return fmt.Errorf("bucket %s existed before the crash but cannot be queried after restart: %s", bd.Key, bd.Error)
		}
	}
	if s := a.Second; s != nil {
		// the start-up set a WAL aside: one more start-up must succeed, leave the set-aside file
		// alone and serve the same data
		rec.Class("second-restart-after-a-WAL-was-set-aside", 1)
		if !s.OK {
			return fmt.Errorf("a second start-up after a WAL file was set aside fails: %s", restartFailure(s))
		}
		tmp := func(d *wl.Dump) string {
			var l []string
			for _, f := range d.WALFiles {
				if strings.HasSuffix(f, ".tmp") {
					l = append(l, f)
				}
			}
			return fmt.Sprint(l)
		}
		if tmp(a.Dump) != tmp(s.Dump) {
			return fmt.Errorf("set-aside WAL files after the first start-up %s, after the second %s: a file that was set aside is picked up again", tmp(a.Dump), tmp(s.Dump))
		}
		b1, _ := json.Marshal(a.Dump.Buckets)
		b2, _ := json.Marshal(s.Dump.Buckets)
		if string(b1) != string(b2) {
			return fmt.Errorf("a second start-up changes the data: first %.300s second %.300s", b1, b2)
		}
	}
	return nil
}
