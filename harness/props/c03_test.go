package props

import (
	"fmt"
	"strings"
	"testing"

	"verifharness/crashfs"
	"verifharness/hx"
)

// C03 Restart after a crash succeeds and leaves data readable (process-crash model;
// the power-loss variants are enumerated by C04, which asserts C03's relation too).
func TestC03(t *testing.T) {
	rec := hx.R("C03")
	runCrashSweep(t, crashSweepCfg{
		prop: "C03", rec: rec,
		opts: histOpts{minOps: 3, maxOps: envInt("VERIF_MAXOPS", 7), varBias: 75, checkpoints: true, multiPart: true, sameInterval: 70, destroys: true},
		oracle: func(cr *crashRun, k int, a, b *restartResult) error {
			return checkRestartOK(cr, k, a, rec)
		},
		ntPoint: func(cr *crashRun, k int) bool {
			// strictly inside a primary-file write sequence: previous and next mutating events are
			// writes to the same year file
			if k <= 0 || k >= len(cr.Events) {
				return false
			}
			a, b := &cr.Events[k-1], &cr.Events[k]
			return a.Kind == crashfs.EvWrite && b.Kind == crashfs.EvWrite && a.Path == b.Path && strings.HasSuffix(a.Path, ".bin")
		},
	})
}

func checkRestartOK(cr *crashRun, k int, a *restartResult, rec *hx.Rec) error {
	if !a.OK {
		if cr.kf03aPoint(k) && hx.KFOpen("KF-03a") && strings.Contains(a.Stderr, "unable to replay") {
			rec.Exclude("KF-03a")
			rec.KF("KF-03a", "start-up panics after a crash between in-place data rewrite and index update")
			return nil
		}
		return fmt.Errorf("server does not start after the crash: %s", restartFailure(a))
	}
	for _, bd := range a.Dump.Buckets {
		if bd.Error != "" {
			return fmt.Errorf("bucket %s existed before the crash but cannot be queried after restart: %s", bd.Key, bd.Error)
		}
	}
	return nil
}
