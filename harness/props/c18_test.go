package props

import (
	"fmt"
	"os"
	"strings"
	"sync"
	"sync/atomic"
	"testing"
	"time"

	"github.com/alpacahq/marketstore/v4/utils/io"
	"pgregory.net/rapid"

	"verifharness/hx"
)

// C18 Concurrent writes and queries are safe and read-committed (built with -race).
func TestC18(t *testing.T) {
	rec := hx.R("C18")
	schema := []io.DataShape{{Name: "A", Type: io.INT64}, {Name: "B", Type: io.INT64}, {Name: "C", Type: io.INT64}}
	rapid.Check(t, func(t *rapid.T) {
		nw := rapid.IntRange(2, 6).Draw(t, "writers")
		nr := rapid.IntRange(1, 4).Draw(t, "readers")
		per := rapid.IntRange(20, 120).Draw(t, "opsPerWriter")
		root := hx.ScratchDir("c18")
		defer os.RemoveAll(root)
		in := hx.NewInst(root, hx.InstOpts{WALRefresh: time.Duration(rapid.IntRange(1, 4).Draw(t, "walMs")) * time.Millisecond,
			PrimaryRefresh: time.Duration(rapid.IntRange(5, 40).Draw(t, "ckptMs")) * time.Millisecond, RotateInterval: rapid.IntRange(1, 3).Draw(t, "rotate")})
		closed := false
		defer func() {
			if !closed {
				in.Close()
			}
		}()
		buckets := []*hx.Bucket{
			{Sym: "F0", TF: "1Min", Group: "G", Schema: schema},
			{Sym: "F1", TF: "1H", Group: "G", Schema: schema},
			{Sym: "V0", TF: "1Min", Group: "G", Schema: schema, Variable: true},
		}
		// pre-create so that creation races are C17's subject, not this one's
		for _, b := range buckets {
			if err := in.Create(b); err != nil {
				t.Fatalf("create: %v", err)
			}
		}
		base := int64(1583020800)
		type wr struct {
			bucket int
			slot   int64
			tag    int64
		}
		// the programs are drawn up front (the schedule is the only free variable)
		progs := make([][]wr, nw)
		for w := 0; w < nw; w++ {
			for i := 0; i < per; i++ {
				bi := rapid.IntRange(0, 2).Draw(t, "bucket")
				tfSec := int64(hx.TFDuration(buckets[bi].TF).Seconds())
				slot := base + tfSec*rapid.Int64Range(1, 6).Draw(t, "slot")
				if rapid.IntRange(0, 7).Draw(t, "otherYear") == 0 {
					// the same interval of another year: the first such write creates a year file and
					// registers it in the catalog while readers and other writers use the bucket
					slot += 365 * 86400 * rapid.Int64Range(1, 4).Draw(t, "years")
					slot -= slot % tfSec
				}
				progs[w] = append(progs[w], wr{bi, slot, int64(w+1)<<32 | int64(i+1)})
			}
		}
		issuedFixed := map[string]map[int64]bool{} // bucket/slot -> tags
		varWritten := map[int64]bool{}
		for _, p := range progs {
			for _, x := range p {
				if buckets[x.bucket].Variable {
					varWritten[x.tag] = true
				} else {
					k := fmt.Sprint(x.bucket, "/", x.slot)
					if issuedFixed[k] == nil {
						issuedFixed[k] = map[int64]bool{}
					}
					issuedFixed[k][x.tag] = true
				}
			}
		}
		var mu sync.Mutex
		var fails []string
		fail := func(format string, a ...interface{}) {
			mu.Lock()
			if len(fails) < 6 {
				fails = append(fails, fmt.Sprintf(format, a...))
			}
			mu.Unlock()
		}
		checkRows := func(who string, bi int, got *hx.Rows) {
			a, b, c := got.Cols[0].([]int64), got.Cols[1].([]int64), got.Cols[2].([]int64)
			for i := range a {
				if a[i] != b[i] || b[i] != c[i] {
					fail("%s: torn row in %s at epoch %d: A=%d B=%d C=%d", who, buckets[bi].Key(), got.Epoch[i], a[i], b[i], c[i])
					return
				}
				if buckets[bi].Variable {
					if !varWritten[a[i]] {
						fail("%s: row with tag %d in %s was never written", who, a[i], buckets[bi].Key())
					}
				} else if !issuedFixed[fmt.Sprint(bi, "/", got.Epoch[i])][a[i]] {
					fail("%s: %s slot %d holds tag %d which no write put there", who, buckets[bi].Key(), got.Epoch[i], a[i])
				}
			}
		}
		var stop int32
		var overlapReads int64
		var wg, rg sync.WaitGroup
		start := make(chan struct{})
		for w := 0; w < nw; w++ {
			wg.Add(1)
			go func(w int) {
				defer wg.Done()
				defer func() {
					if r := recover(); r != nil {
						fail("writer %d panics: %v", w, r)
					}
				}()
				<-start
				for _, x := range progs[w] {
					b := buckets[x.bucket]
					r := &hx.Rows{Epoch: []int64{x.slot}, Names: []string{"A", "B", "C"}, Cols: []interface{}{[]int64{x.tag}, []int64{x.tag}, []int64{x.tag}}}
					if b.Variable {
						r.Nanos = []int32{int32(x.tag & 0xffff)}
					}
					if err := in.WriteVia(b, r, 1); err != nil {
						fail("writer %d: write rejected: %v", w, err)
						return
					}
				}
			}(w)
		}
		for r := 0; r < nr; r++ {
			rg.Add(1)
			go func(r int) {
				defer rg.Done()
				defer func() {
					if rc := recover(); rc != nil {
						fail("reader %d panics: %v", r, rc)
					}
				}()
				<-start
				for i := 0; atomic.LoadInt32(&stop) == 0; i++ {
					bi := (r + i) % 3
					got, err := in.QueryAll(buckets[bi])
					if err != nil {
						rec.Class("query error: "+err.Error(), 1)
						if buckets[bi].Variable && hx.KFOpen("KF-18a") && kf18aError(err.Error()) {
							// KF-03a's window seen from a reader: the interval's data was rewritten in place,
							// its index record not yet, so the old length is applied to the new bytes
							rec.Exclude("KF-18a")
							rec.KF("KF-18a", err.Error())
							continue
						}
						fail("reader %d: query of %s fails: %v", r, buckets[bi].Key(), err)
						continue
					}
					if got.Len() > 0 {
						checkRows(fmt.Sprintf("reader %d", r), bi, got)
						if buckets[bi].Variable {
							atomic.AddInt64(&overlapReads, 1)
						}
					}
				}
			}(r)
		}
		close(start)
		wg.Wait()
		atomic.StoreInt32(&stop, 1)
		rg.Wait()
		// final state: every variable record exactly once, every written fixed slot holds one of its writes
		for bi, b := range buckets {
			got, err := in.QueryAll(b)
			if err != nil {
				fail("final query of %s: %v", b.Key(), err)
				continue
			}
			if got.Len() > 0 {
				checkRows("final", bi, got)
			}
			if b.Variable {
				cnt := map[int64]int{}
				for _, v := range got.Cols[0].([]int64) {
					cnt[v]++
				}
				for tg := range varWritten {
					if cnt[tg] != 1 {
						fail("final: variable record tag %d present %d times, written once", tg, cnt[tg])
						break
					}
				}
			} else {
				have := map[int64]bool{}
				for _, e := range got.Epoch {
					have[e] = true
				}
				for k := range issuedFixed {
					var kb int
					var slot int64
					fmt.Sscanf(strings.Replace(k, "/", " ", 1), "%d %d", &kb, &slot)
					if kb == bi && !have[slot] {
						fail("final: %s slot %d was written but is missing", b.Key(), slot)
						break
					}
				}
			}
		}
		in.Close()
		closed = true
		if len(fails) > 0 {
			t.Fatalf("writers=%d readers=%d ops/writer=%d:\n  %s", nw, nr, per, joinLines(fails))
		}
		nt := ""
		if overlapReads > 0 {
			nt = fmt.Sprint(nw, nr, per, hx.Hash(fmt.Sprint(progs)))
			rec.Sample(map[string]interface{}{"writers": nw, "readers": nr, "ops_per_writer": per, "reads_of_the_variable_bucket_during_writes": overlapReads})
		}
		rec.Case(nt, fmt.Sprintf("writers=%d", nw), fmt.Sprintf("readers=%d", nr))
	})
	rec.Flush()
}

// kf18aError: the manifestations KF-18a excuses - the reader decodes an interval whose bytes and
// index record are out of step (decode failure or a short read at the end of the file).
func kf18aError(msg string) bool {
	return strings.Contains(msg, "snappy") || strings.Contains(msg, "EOF") || strings.Contains(msg, "corrupt")
}
