package props

import (
	"fmt"
	"math"
	"sort"
	"testing"
	"time"

	"github.com/alpacahq/marketstore/v4/sqlparser"
	"github.com/alpacahq/marketstore/v4/utils"
	"github.com/alpacahq/marketstore/v4/utils/io"
	"pgregory.net/rapid"

	"verifharness/hx"
)

// candle timeframes from seconds to one day, including non-divisors of a day
var candleTFs = []struct {
	s   string
	sec int64
}{{"1Sec", 1}, {"5Sec", 5}, {"90Sec", 90}, {"1Min", 60}, {"5Min", 300}, {"7Min", 420}, {"15Min", 900}, {"1H", 3600}, {"4H", 14400}, {"1D", 86400}}

// windowStart is the harness's own window arithmetic: multiples of the duration counted
// from 0001-01-01 00:00 UTC (the time.Truncate rule); for days that is the UTC calendar day.
func windowStart(unixNs int64, tfSec int64) int64 {
	const zeroToUnix = 62135596800
	s := floorDiv(unixNs, 1e9) + zeroToUnix
	return s - s%tfSec - zeroToUnix
}

type tick struct {
	ns    int64 // full time
	price float32
	vol   int32
}

func genTicks(t *rapid.T, tfSec int64, distinct bool) []tick {
	n := rapid.OneOf(rapid.IntRange(1, 6), rapid.IntRange(1, 60), rapid.IntRange(1, 500)).Draw(t, "nrows")
	nwin := rapid.Int64Range(1, 20).Draw(t, "nwindows")
	base := rapid.SampledFrom([]int64{1577836800, 1583020800, 1609459200 - 86400, 1700000000}).Draw(t, "base")
	base = windowStart(base*1e9, tfSec)
	priceGen := rapid.OneOf(
		rapid.SampledFrom([]float32{0, 1, -1, 100.5, -100.5, math.MaxFloat32, -math.MaxFloat32, float32(math.Inf(1)), float32(math.Inf(-1)), 1e-30, 7, 7, 7}),
		rapid.Float32Range(-1000, 1000), rapid.Float32Range(99, 101))
	seen := map[int64]bool{}
	var out []tick
	for len(out) < n {
		w := rapid.Int64Range(0, nwin-1).Draw(t, "window")
		off := rapid.OneOf(rapid.Just(int64(0)), rapid.Just(tfSec*1e9-1), rapid.Int64Range(0, tfSec*1e9-1),
			rapid.Map(rapid.Int64Range(0, tfSec-1), func(s int64) int64 { return s * 1e9 })).Draw(t, "offns")
		ns := (base+w*tfSec)*1e9 + off
		if distinct && seen[ns] {
			continue
		}
		seen[ns] = true
		out = append(out, tick{ns: ns, price: priceGen.Draw(t, "price"), vol: int32(rapid.IntRange(0, 1000).Draw(t, "vol"))})
	}
	return out
}

func ticksToCS(tk []tick) *io.ColumnSeries {
	cs := io.NewColumnSeries()
	ep, ns, pr, vol := make([]int64, len(tk)), make([]int32, len(tk)), make([]float32, len(tk)), make([]int32, len(tk))
	for i, x := range tk {
		ep[i], ns[i], pr[i], vol[i] = floorDiv(x.ns, 1e9), int32(x.ns-floorDiv(x.ns, 1e9)*1e9), x.price, x.vol
	}
	cs.AddColumn("Epoch", ep)
	cs.AddColumn("Price", pr)
	cs.AddColumn("V", vol)
	cs.AddColumn("Nanoseconds", ns)
	return cs
}

type candle struct {
	start                  int64
	open, high, low, close float32
	openSet, closeSet      map[float32]bool // acceptable opens/closes (ties in time)
	sum                    float64
	n                      int
}

// refCandles is the reference aggregation.
func refCandles(tk []tick, tfSec int64) []*candle {
	m := map[int64]*candle{}
	var minT, maxT = map[int64]int64{}, map[int64]int64{}
	for _, x := range tk {
		w := windowStart(x.ns, tfSec)
		c := m[w]
		if c == nil {
			c = &candle{start: w, high: x.price, low: x.price, openSet: map[float32]bool{}, closeSet: map[float32]bool{}}
			m[w] = c
			minT[w], maxT[w] = x.ns, x.ns
		}
		if x.price > c.high {
			c.high = x.price
		}
		if x.price < c.low {
			c.low = x.price
		}
		if x.ns < minT[w] {
			minT[w] = x.ns
		}
		if x.ns > maxT[w] {
			maxT[w] = x.ns
		}
		c.sum += float64(x.vol)
		c.n++
	}
	for _, x := range tk {
		w := windowStart(x.ns, tfSec)
		if x.ns == minT[w] {
			m[w].openSet[x.price] = true
		}
		if x.ns == maxT[w] {
			m[w].closeSet[x.price] = true
		}
	}
	var out []*candle
	for _, c := range m {
		out = append(out, c)
	}
	sort.Slice(out, func(i, j int) bool { return out[i].start < out[j].start })
	return out
}

type outCandle struct {
	epoch                  int64
	open, high, low, close float32
	sum, avg               float64
}

func readCandles(cs *io.ColumnSeries, sumName, avgName string) ([]outCandle, error) {
	ep, ok := cs.GetColumn("Epoch").([]int64)
	if !ok {
		return nil, fmt.Errorf("no Epoch column in %v", cs.GetColumnNames())
	}
	f := func(n string) ([]float32, error) {
		c, ok := cs.GetColumn(n).([]float32)
		if !ok {
			return nil, fmt.Errorf("column %s missing or not float32 (columns %v)", n, cs.GetColumnNames())
		}
		return c, nil
	}
	o, err := f("Open")
	if err != nil {
		return nil, err
	}
	h, err := f("High")
	if err != nil {
		return nil, err
	}
	l, err := f("Low")
	if err != nil {
		return nil, err
	}
	c, err := f("Close")
	if err != nil {
		return nil, err
	}
	var sum, avg []float64
	if sumName != "" {
		sum, ok = cs.GetColumn(sumName).([]float64)
		if !ok {
			return nil, fmt.Errorf("column %s missing (columns %v)", sumName, cs.GetColumnNames())
		}
	}
	if avgName != "" {
		avg, ok = cs.GetColumn(avgName).([]float64)
		if !ok {
			return nil, fmt.Errorf("column %s missing (columns %v)", avgName, cs.GetColumnNames())
		}
	}
	out := make([]outCandle, len(ep))
	for i := range ep {
		out[i] = outCandle{epoch: ep[i], open: o[i], high: h[i], low: l[i], close: c[i]}
		if sum != nil {
			out[i].sum = sum[i]
		}
		if avg != nil {
			out[i].avg = avg[i]
		}
	}
	return out, nil
}

func f32eq(a, b float32) bool { return a == b || (a != a && b != b) }

func compareCandles(got []outCandle, want []*candle, withSums bool) error {
	if len(got) != len(want) {
		return fmt.Errorf("%d candles, want %d (one per window that contains rows)", len(got), len(want))
	}
	for i, w := range want {
		g := got[i]
		if g.epoch != w.start {
			return fmt.Errorf("candle %d starts at %d (%s), want window start %d (%s)", i, g.epoch, time.Unix(g.epoch, 0).UTC().Format(time.RFC3339), w.start, time.Unix(w.start, 0).UTC().Format(time.RFC3339))
		}
		if !w.openSet[g.open] {
			return fmt.Errorf("candle %s: open %v is not the price of an earliest row %v", time.Unix(w.start, 0).UTC().Format(time.RFC3339), g.open, w.openSet)
		}
		if !w.closeSet[g.close] {
			return fmt.Errorf("candle %s: close %v is not the price of a latest row %v", time.Unix(w.start, 0).UTC().Format(time.RFC3339), g.close, w.closeSet)
		}
		if !f32eq(g.high, w.high) || !f32eq(g.low, w.low) {
			return fmt.Errorf("candle %s: high/low %v/%v, want %v/%v", time.Unix(w.start, 0).UTC().Format(time.RFC3339), g.high, g.low, w.high, w.low)
		}
		if withSums {
			if g.sum != w.sum {
				return fmt.Errorf("candle %s: sum %v, want %v", time.Unix(w.start, 0).UTC().Format(time.RFC3339), g.sum, w.sum)
			}
			if math.Abs(g.avg-w.sum/float64(w.n)) > 1e-9*math.Max(1, math.Abs(g.avg)) {
				return fmt.Errorf("candle %s: average %v, want %v", time.Unix(w.start, 0).UTC().Format(time.RFC3339), g.avg, w.sum/float64(w.n))
			}
		}
	}
	return nil
}

// C21 Candle aggregation computes correct OHLC candles.
func TestC21(t *testing.T) {
	rec := hx.R("C21")
	utils.InstanceConfig.Timezone = time.UTC
	runner := sqlparser.NewDefaultAggRunner(nil)
	tbk := *io.NewTimeBucketKey("T/1Sec/TICK")
	rapid.Check(t, func(t *rapid.T) {
		tf := rapid.SampledFrom(candleTFs).Draw(t, "tf")
		distinct := rapid.Bool().Draw(t, "distinctTimestamps")
		tk := genTicks(t, tf.sec, distinct)
		want := refCandles(tk, tf.sec)
		candleInput := rapid.Bool().Draw(t, "candleInput")
		var got []outCandle
		if !candleInput {
			out, err := runner.Run([]string{fmt.Sprintf("TickCandler('%s', Price, Sum::V, Avg::V)", tf.s)}, ticksToCS(tk), tbk)
			if err != nil {
				t.Fatalf("TickCandler: %v", err)
			}
			got, err = readCandles(out, "V_SUM", "V_AVG")
			if err != nil {
				t.Fatalf("%v", err)
			}
			if err := compareCandles(got, want, true); err != nil {
				t.Fatalf("TickCandler('%s') over %d rows: %v", tf.s, len(tk), err)
			}
			// metamorphic: any permutation of rows with distinct timestamps gives the same OHLC
			if distinct && len(tk) > 1 {
				perm := rapid.Permutation(tk).Draw(t, "perm")
				out2, err := runner.Run([]string{fmt.Sprintf("TickCandler('%s', Price)", tf.s)}, ticksToCS(perm), tbk)
				if err != nil {
					t.Fatalf("TickCandler (permuted): %v", err)
				}
				got2, err := readCandles(out2, "", "")
				if err != nil {
					t.Fatalf("%v", err)
				}
				for i := range got {
					a, b := got[i], got2[i]
					if len(got) != len(got2) || a.epoch != b.epoch || !f32eq(a.open, b.open) || !f32eq(a.high, b.high) || !f32eq(a.low, b.low) || !f32eq(a.close, b.close) {
						t.Fatalf("TickCandler('%s'): candle %d differs after permuting rows with distinct timestamps: %+v vs %+v", tf.s, i, a, b)
					}
				}
			}
		} else {
			// candle input: every row is itself a candle (open, high, low, close)
			cs := io.NewColumnSeries()
			n := len(tk)
			ep, o, h, l, c, v := make([]int64, n), make([]float32, n), make([]float32, n), make([]float32, n), make([]float32, n), make([]int32, n)
			type cin struct {
				ns         int64
				o, h, l, c float32
			}
			var cins []cin
			for i, x := range tk {
				sec := floorDiv(x.ns, 1e9)
				lo := rapid.Float32Range(-50, 50).Draw(t, "lo")
				hi := lo + rapid.Float32Range(0, 10).Draw(t, "hi")
				ep[i], o[i], h[i], l[i], c[i], v[i] = sec, x.price, hi, lo, rapid.Float32Range(-50, 50).Draw(t, "close"), x.vol
				cins = append(cins, cin{sec * 1e9, o[i], h[i], l[i], c[i]})
			}
			cs.AddColumn("Epoch", ep)
			cs.AddColumn("Open", o)
			cs.AddColumn("High", h)
			cs.AddColumn("Low", l)
			cs.AddColumn("Close", c)
			cs.AddColumn("Volume", v)
			out, err := runner.Run([]string{fmt.Sprintf("CandleCandler('%s', Open, High, Low, Close, Sum::Volume)", tf.s)}, cs, tbk)
			if err != nil {
				t.Fatalf("CandleCandler: %v", err)
			}
			got, err = readCandles(out, "Volume_SUM", "")
			if err != nil {
				t.Fatalf("%v", err)
			}
			// reference for candle input
			type acc struct {
				minT, maxT    int64
				high, low     float32
				opens, closes map[float32]bool
				sum           float64
			}
			m := map[int64]*acc{}
			for i, x := range cins {
				w := windowStart(x.ns, tf.sec)
				a := m[w]
				if a == nil {
					a = &acc{minT: x.ns, maxT: x.ns, high: x.h, low: x.l}
					m[w] = a
				}
				if x.h > a.high {
					a.high = x.h
				}
				if x.l < a.low {
					a.low = x.l
				}
				if x.ns < a.minT {
					a.minT = x.ns
				}
				if x.ns > a.maxT {
					a.maxT = x.ns
				}
				a.sum += float64(v[i])
			}
			for _, a := range m {
				a.opens, a.closes = map[float32]bool{}, map[float32]bool{}
			}
			for _, x := range cins {
				a := m[windowStart(x.ns, tf.sec)]
				if x.ns == a.minT {
					a.opens[x.o] = true
				}
				if x.ns == a.maxT {
					a.closes[x.c] = true
				}
			}
			if len(got) != len(m) {
				t.Fatalf("CandleCandler('%s'): %d candles, want %d", tf.s, len(got), len(m))
			}
			prev := int64(math.MinInt64)
			for _, g := range got {
				a := m[g.epoch]
				if a == nil {
					t.Fatalf("CandleCandler('%s'): candle at %d is not a window start with input rows", tf.s, g.epoch)
				}
				if g.epoch <= prev {
					t.Fatalf("CandleCandler('%s'): candles not in time order", tf.s)
				}
				prev = g.epoch
				// the first candle of a window initialises high/low from its own high/low; open/close sets as for ticks
				if !a.opens[g.open] || !a.closes[g.close] || !f32eq(g.high, a.high) || !f32eq(g.low, a.low) || g.sum != a.sum {
					t.Fatalf("CandleCandler('%s') window %d: got O/H/L/C/sum %v/%v/%v/%v/%v, want open in %v, high %v, low %v, close in %v, sum %v",
						tf.s, g.epoch, g.open, g.high, g.low, g.close, g.sum, a.opens, a.high, a.low, a.closes, a.sum)
				}
			}
		}
		// non-trivial: >= 2 windows and a window with >= 3 rows not in time order
		nt := ""
		if len(want) >= 2 {
			perWin := map[int64][]int64{}
			for _, x := range tk {
				w := windowStart(x.ns, tf.sec)
				perWin[w] = append(perWin[w], x.ns)
			}
			for _, l := range perWin {
				if len(l) >= 3 && !sort.SliceIsSorted(l, func(i, j int) bool { return l[i] < l[j] }) {
					nt = fmt.Sprint(tf.s, candleInput, hx.Hash(fmt.Sprint(tk)))
				}
			}
		}
		if nt != "" {
			rec.Sample(map[string]interface{}{"tf": tf.s, "rows": len(tk), "windows": len(want), "candle_input": candleInput, "distinct_timestamps": distinct})
		}
		rec.Case(nt, "tf:"+tf.s, fmt.Sprintf("candleInput=%v", candleInput))
	})
	rec.Flush()
}
