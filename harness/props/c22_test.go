package props

import (
	"fmt"
	"testing"
	"time"

	"github.com/alpacahq/marketstore/v4/sqlparser"
	"github.com/alpacahq/marketstore/v4/utils"
	"github.com/alpacahq/marketstore/v4/utils/io"
	"pgregory.net/rapid"

	"verifharness/hx"
)

// C22 Candle aggregation composes across timeframes:
// CandleCandler(coarse)(TickCandler(fine)(rows)) has the OHLC of TickCandler(coarse)(rows)
// whenever fine divides coarse.
func TestC22(t *testing.T) {
	rec := hx.R("C22")
	utils.InstanceConfig.Timezone = time.UTC
	runner := sqlparser.NewDefaultAggRunner(nil)
	tbk := *io.NewTimeBucketKey("T/1Sec/TICK")
	var pairs [][2]int
	for i, f := range candleTFs {
		for j, c := range candleTFs {
			if j > i && c.sec%f.sec == 0 {
				pairs = append(pairs, [2]int{i, j})
			}
		}
	}
	rapid.Check(t, func(t *rapid.T) {
		p := rapid.SampledFrom(pairs).Draw(t, "pair")
		fine, coarse := candleTFs[p[0]], candleTFs[p[1]]
		// rows spread over a few coarse windows; equal timestamps carry equal prices so that the
		// "an earliest / a latest row" freedom cannot create a difference
		tk := genTicks(t, coarse.sec, false)
		priceAt := map[int64]float32{}
		for i := range tk {
			if pr, ok := priceAt[tk[i].ns]; ok {
				tk[i].price = pr
			} else {
				priceAt[tk[i].ns] = tk[i].price
			}
		}
		direct, err := runner.Run([]string{fmt.Sprintf("TickCandler('%s', Price)", coarse.s)}, ticksToCS(tk), tbk)
		if err != nil {
			t.Fatalf("TickCandler(coarse): %v", err)
		}
		two, err := runner.Run([]string{fmt.Sprintf("TickCandler('%s', Price)", fine.s),
			fmt.Sprintf("CandleCandler('%s', Open, High, Low, Close)", coarse.s)}, ticksToCS(tk), tbk)
		if err != nil {
			t.Fatalf("TickCandler(fine)|CandleCandler(coarse): %v", err)
		}
		a, err := readCandles(direct, "", "")
		if err != nil {
			t.Fatalf("%v", err)
		}
		b, err := readCandles(two, "", "")
		if err != nil {
			t.Fatalf("%v", err)
		}
		if len(a) != len(b) {
			t.Fatalf("%s -> %s: %d coarse candles directly, %d via fine candles", fine.s, coarse.s, len(a), len(b))
		}
		for i := range a {
			x, y := a[i], b[i]
			if x.epoch != y.epoch || !f32eq(x.open, y.open) || !f32eq(x.high, y.high) || !f32eq(x.low, y.low) || !f32eq(x.close, y.close) {
				t.Fatalf("%s -> %s, window %s: direct O/H/L/C %v/%v/%v/%v, via fine candles %v/%v/%v/%v (epoch %d vs %d)", fine.s, coarse.s,
					time.Unix(x.epoch, 0).UTC().Format(time.RFC3339), x.open, x.high, x.low, x.close, y.open, y.high, y.low, y.close, x.epoch, y.epoch)
			}
		}
		// non-trivial: a coarse window containing >= 2 non-empty fine windows
		nt := ""
		fineIn := map[int64]map[int64]bool{}
		for _, x := range tk {
			cw, fw := windowStart(x.ns, coarse.sec), windowStart(x.ns, fine.sec)
			if fineIn[cw] == nil {
				fineIn[cw] = map[int64]bool{}
			}
			fineIn[cw][fw] = true
		}
		for _, m := range fineIn {
			if len(m) >= 2 {
				nt = fmt.Sprint(fine.s, coarse.s, hx.Hash(fmt.Sprint(tk)))
			}
		}
		if nt != "" {
			rec.Sample(map[string]interface{}{"fine": fine.s, "coarse": coarse.s, "rows": len(tk), "coarse_windows": len(a)})
		}
		rec.Case(nt, "pair:"+fine.s+"->"+coarse.s)
	})
	rec.Flush()
}
