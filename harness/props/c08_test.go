package props

import (
	"fmt"
	"os"
	"testing"
	"time"

	"github.com/alpacahq/marketstore/v4/frontend"
	"github.com/alpacahq/marketstore/v4/utils/io"
	"pgregory.net/rapid"

	"verifharness/hx"
)

// genRows draws n rows for bucket b from pool.
func genRows(t *rapid.T, b *hx.Bucket, pool *hx.TimePool, n int, rec *hx.Rec) *hx.Rows {
	r := &hx.Rows{}
	for i := 0; i < n; i++ {
		e, cls := pool.Draw(t)
		r.Epoch = append(r.Epoch, e)
		rec.Class(cls, 1)
	}
	for _, ds := range b.Schema {
		r.Names = append(r.Names, ds.Name)
		r.Cols = append(r.Cols, hx.GenColumnBits(t, ds.Type, n, ds.Name))
	}
	return r
}

func genRowCount(t *rapid.T) int {
	return rapid.OneOf(rapid.IntRange(1, 4), rapid.IntRange(1, 30), rapid.IntRange(95, 300)).Draw(t, "nrows")
}

// jan1Slot reports whether slot (epoch seconds) is Jan 1 00:00:00 UTC.
func jan1Slot(s int64) bool {
	tt := time.Unix(s, 0).UTC()
	return tt.YearDay() == 1 && tt.Hour() == 0 && tt.Minute() == 0 && tt.Second() == 0
}

// C08 Fixed-length buckets behave like last-writer-wins interval maps.
func TestC08(t *testing.T) {
	rec := hx.R("C08")
	rapid.Check(t, func(t *rapid.T) {
		tf := hx.GenTF(t)
		b := &hx.Bucket{Sym: "S", TF: tf, Group: "G", Schema: hx.GenSchema(t, 5, hx.WireTypes)}
		pool := hx.NewTimePool(t, hx.TFDuration(tf), rapid.IntRange(1, 3).Draw(t, "nyears"))
		root := hx.ScratchDir("c08")
		defer os.RemoveAll(root)
		in := hx.NewInst(root, hx.InstOpts{})
		defer in.Close()
		m := hx.NewMBucket(b)

		if rapid.Bool().Draw(t, "createFirst") {
			if err := in.Create(b); err != nil {
				t.Fatalf("create: %v", err)
			}
		}
		nreq := rapid.IntRange(1, 8).Draw(t, "nreq")
		overw, bigReq := 0, false
		slow := hx.TFDuration(tf) < 5*time.Minute
		skip := func(s int64) bool {
			return tf == "1D" && jan1Slot(s) && hx.KFOpen("KF-08a")
		}
		check := func(step string) {
			got, err := in.QueryAll(b)
			if err != nil {
				t.Fatalf("%s: all-time query: %v", step, err)
			}
			if err := m.CheckFixedAll(got, skip); err != nil {
				t.Fatalf("%s: %v", step, err)
			}
			// count observed KF-08a manifestations
			if tf == "1D" && hx.KFOpen("KF-08a") {
				present := map[int64]bool{}
				for _, e := range got.Epoch {
					present[e] = true
				}
				for _, s := range m.FixedSlots() {
					if jan1Slot(s) {
						rec.Exclude("KF-08a")
						if !present[s] {
							rec.KF("KF-08a", "1D bar dated Jan 1 is not returned")
						}
					}
				}
			}
		}
		for q := 0; q < nreq; q++ {
			n := genRowCount(t)
			if n >= 100 {
				bigReq = true
			}
			rows := genRows(t, b, pool, n, rec)
			via := rapid.IntRange(0, 1).Draw(t, "via")
			if err := in.WriteVia(b, rows, via); err != nil {
				t.Fatalf("write %d: %v", q, err)
			}
			overw += m.Apply(rows, q)
			if !slow {
				check(fmt.Sprintf("after request %d", q))
			}
		}
		check("at end")

		// the request API without bounds must agree with the explicit wide range
		res, err := in.QueryAPI(frontend.QueryRequest{Destination: b.Key()})
		if err != nil {
			t.Fatalf("DataService.Query without bounds: %v", err)
		}
		got := res[b.Key()]
		if got == nil {
			got = &hx.Rows{}
		}
		if err := m.CheckFixedAll(got, skip); err != nil {
			t.Fatalf("DataService.Query without bounds: %v", err)
		}

		nt := ""
		if overw > 0 && len(m.Years) >= 2 {
			nt = fmt.Sprint(tf, b.Schema, hx.Hash(m.Fixed))
			rec.Sample(map[string]interface{}{"tf": tf, "schema": fmt.Sprint(b.Schema), "requests": nreq,
				"slots": len(m.Fixed), "overwrites": overw, "years": len(m.Years)})
		}
		cls := []string{"tf:" + tf, fmt.Sprintf("years=%d", len(m.Years))}
		if bigReq {
			cls = append(cls, "request>=100rows(buffile)")
		}
		if overw > 0 {
			cls = append(cls, "has-overwrite")
		}
		for _, ds := range b.Schema {
			cls = append(cls, "type:"+hx.TypeStr[ds.Type])
		}
		rec.Case(nt, cls...)
	})
	rec.Flush()
}

var _ = io.FIXED
