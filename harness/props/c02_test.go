package props

import (
	"fmt"
	"testing"

	"verifharness/hx"
	"verifharness/wl"
)

// kf02aWindow: op's primary write has begun before k and no checkpoint covers it yet,
// so start-up replay re-applies its transaction group (variable records get appended again).
func (cr *crashRun) kf02aWindow(op, k int) bool {
	if cr.l2PrimaryWritten && cr.issued(op, k) && !cr.covered(op, k) {
		// two-level enumeration (C34): the interrupted start-up's own replay had already written
		// primary data of the transactions it found un-checkpointed; the next start-up replays them again
		return true
	}
	fp, ok := cr.FirstPrim[op]
	return ok && fp < k && !cr.covered(op, k)
}

// checkNoPhantoms is C02's relation for the dump d (phase A and B merged by the caller).
func checkNoPhantoms(cr *crashRun, k int, dumps []*wl.Dump, rec *hx.Rec) error {
	return checkNoPhantomsMax(cr, k, dumps, rec, 2)
}

// checkNoPhantomsMax: maxDup is the multiplicity KF-02a may produce (2 after one
// restart, 3 when the restart itself was interrupted and repeated).
func checkNoPhantomsMax(cr *crashRun, k int, dumps []*wl.Dump, rec *hx.Rec, maxDup int) error {
	rows := historyRows(cr.H)
	byTag := map[int64]wrRow{}
	for _, w := range rows {
		byTag[w.tag] = w
	}
	inflight := -1
	for op := range cr.Beg {
		if cr.H.Ops[op].Kind == "write" && cr.issued(op, k) && !cr.acked(op, k) {
			inflight = op
		}
	}
	present := map[int64]int{} // tag -> times seen
	undumped := map[int]bool{} // buckets without a usable dump (not asked for, or unreadable)
	for bi, spec := range cr.H.Buckets {
		key := spec.Bucket().Key()
		var bd *wl.BucketDump
		for _, d := range dumps {
			if x := dumpFor(d, key); x != nil {
				bd = x
			}
		}
		if bd == nil || bd.Error != "" {
			undumped[bi] = true
			continue // availability is C03's subject
		}
		tf := hx.TFDuration(spec.TF)
		for i, tg := range bd.Tag {
			w, ok := byTag[tg]
			if !ok || w.bucket != bi {
				return fmt.Errorf("bucket %s: row with tag %d (epoch %d) was never written to this bucket", key, tg, bd.Epoch[i])
			}
			if !cr.issued(w.op, k) {
				return fmt.Errorf("bucket %s: row of op %d present although the op had not been issued before the crash", key, w.op)
			}
			if bd.Val[i] != w.val {
				return fmt.Errorf("bucket %s: tag %d carries Val %d, written %d", key, tg, bd.Val[i], w.val)
			}
			if spec.Variable {
				got := bd.Epoch[i]*1e9 + int64(bd.Nanos[i])
				want := w.epoch*1e9 + int64(w.nanos)
				if d := want - got; d < 0 || d > hx.ResolutionNs(tf) {
					return fmt.Errorf("bucket %s: tag %d at %d ns, written at %d ns", key, tg, got, want)
				}
			} else if bd.Epoch[i] != w.slot {
				return fmt.Errorf("bucket %s: tag %d in slot %d, written to slot %d", key, tg, bd.Epoch[i], w.slot)
			}
			present[tg]++
		}
	}
	// multiplicity of variable-length records
	for _, w := range rows {
		if !cr.H.Buckets[w.bucket].Variable {
			continue
		}
		n := present[w.tag]
		if n <= 1 {
			continue
		}
		if n <= maxDup && cr.kf02aWindow(w.op, k) && hx.KFOpen("KF-02a") {
			rec.Exclude("KF-02a")
			rec.KF("KF-02a", "variable-length records duplicated by WAL replay")
			continue
		}
		return fmt.Errorf("bucket %s: record tag=%d (op %d) appears %d times after restart, written once",
			cr.H.Buckets[w.bucket].Bucket().Key(), w.tag, w.op, n)
	}
	// atomicity of the transaction in flight
	if inflight >= 0 {
		var in, out []wrRow
		for _, w := range rows {
			if w.op != inflight || !w.lastInOp {
				continue
			}
			if undumped[w.bucket] {
				// atomicity cannot be judged without the contents of every bucket of the transaction
				in, out = nil, nil
				break
			}
			if present[w.tag] > 0 {
				in = append(in, w)
			} else {
				out = append(out, w)
			}
		}
		if len(in) > 0 && len(out) > 0 {
			return fmt.Errorf("transaction of op %d partially applied after restart: row %d (bucket %s) present, row %d (bucket %s) absent",
				inflight, in[0].row, cr.H.Buckets[in[0].bucket].Sym, out[0].row, cr.H.Buckets[out[0].bucket].Sym)
		}
	}
	return nil
}

// C02 Crash recovery adds no duplicate or phantom data.
func TestC02(t *testing.T) {
	rec := hx.R("C02")
	runCrashSweep(t, crashSweepCfg{
		prop: "C02", rec: rec,
		opts: histOpts{minOps: 3, maxOps: envInt("VERIF_MAXOPS", 6), varBias: 65, checkpoints: true, multiPart: true, sameInterval: 35},
		oracle: func(cr *crashRun, k int, a, b *restartResult) error {
			if !a.OK {
				return nil // start-up failure is C03's subject
			}
			dumps := []*wl.Dump{a.Dump}
			if b != nil && b.OK {
				dumps = append(dumps, b.Dump)
			}
			return checkNoPhantoms(cr, k, dumps, rec)
		},
		ntPoint: func(cr *crashRun, k int) bool {
			// after the first primary write of a TG with variable records and before the covering checkpoint
			for op, fp := range cr.FirstPrim {
				if fp < k && !cr.covered(op, k) {
					for _, p := range cr.H.Ops[op].Parts {
						if cr.H.Buckets[p.Bucket].Variable {
							return true
						}
					}
				}
			}
			return false
		},
	})
}
