package props

import (
	"bytes"
	"encoding/binary"
	"fmt"
	"strings"
	"testing"

	"pgregory.net/rapid"

	"verifharness/crashfs"
	"verifharness/hx"
	"verifharness/wl"
)

// genBgHistory: background-writer mode, 1-3 writer goroutines, short timers.
// Buckets: W (witness, fixed 1Min, one slot, written by every fixed op), per writer
// a fixed bucket F<w> (1H) and a variable bucket V<w> (1Min).
func genBgHistory(t *rapid.T, maxOpsPerWriter int) *wl.History {
	h := &wl.History{Mode: "bg"}
	h.Writers = rapid.IntRange(1, 3).Draw(t, "writers")
	tm := rapid.SampledFrom([][3]int{{1, 2, 1}, {2, 5, 2}, {1, 3, 3}, {3, 10, 1}, {5, 6, 2}}).Draw(t, "timers")
	h.WALRefreshMs, h.PrimaryRefreshMs, h.Rotate = tm[0], tm[1], tm[2]
	h.Buckets = append(h.Buckets, wl.BucketSpec{Sym: "W", TF: "1Min"})
	for w := 0; w < h.Writers; w++ {
		h.Buckets = append(h.Buckets, wl.BucketSpec{Sym: fmt.Sprintf("F%d", w), TF: "1H"}, wl.BucketSpec{Sym: fmt.Sprintf("V%d", w), TF: "1Min", Variable: true})
	}
	const witness = int64(1583020800) // 2020-03-01 00:00
	for w := 0; w < h.Writers; w++ {
		n := rapid.IntRange(2, maxOpsPerWriter).Draw(t, "nops")
		for i := 0; i < n; i++ {
			if rapid.IntRange(0, 2).Draw(t, "sleep") == 0 {
				h.Ops = append(h.Ops, wl.Op{Kind: "sleep", Ms: rapid.IntRange(1, 8).Draw(t, "ms"), Writer: w})
			}
			if rapid.IntRange(0, 2).Draw(t, "variable") == 0 {
				p := wl.Part{Bucket: 2 + 2*w}
				nr := rapid.IntRange(1, 3).Draw(t, "nrows")
				for r := 0; r < nr; r++ {
					p.Epoch = append(p.Epoch, witness+60*rapid.Int64Range(1, 3).Draw(t, "slot")+rapid.Int64Range(0, 59).Draw(t, "sec"))
					p.Nanos = append(p.Nanos, int32(rapid.IntRange(0, 999999000).Draw(t, "ns")))
				}
				h.Ops = append(h.Ops, wl.Op{Kind: "write", Writer: w, Parts: []wl.Part{p}})
			} else {
				p := wl.Part{Bucket: 1 + 2*w}
				nr := rapid.IntRange(1, 2).Draw(t, "nrows")
				for r := 0; r < nr; r++ {
					p.Epoch = append(p.Epoch, witness+3600*rapid.Int64Range(1, 4).Draw(t, "slot"))
				}
				h.Ops = append(h.Ops, wl.Op{Kind: "write", Writer: w, Parts: []wl.Part{p, {Bucket: 0, Epoch: []int64{witness}}}})
			}
		}
	}
	if rapid.Bool().Draw(t, "shutdown") {
		h.Ops = append(h.Ops, wl.Op{Kind: "shutdown"})
	}
	return h
}

type walMsg struct {
	idx    int // event index
	kind   string
	tgid   int64
	dest   byte
	status byte
}

// c05Trace holds the WAL-protocol view of a bg-mode trace.
type c05Trace struct {
	cr       *crashRun
	wal      string
	tgOfOp   map[int]int // op -> event index of the TGDATA payload write that carries it
	tgOrder  map[int]int // event index of TGDATA payload -> ordinal
	// wTG: op -> event index of the TGDATA payload that carries the op's WITNESS row. A timer flush
	// can split one request over two transaction groups; the witness slot's commit order is that of
	// the groups carrying the witness rows, not of the groups carrying the requests' first rows.
	wTG map[int]int
	fsyncs   []int
	syncs    []int
	commitID []int64
}

func analyseBg(cr *crashRun) (*c05Trace, error) {
	c := &c05Trace{cr: cr, tgOfOp: map[int]int{}, tgOrder: map[int]int{}, wTG: map[int]int{}}
	for i, e := range cr.Events {
		if e.Kind == crashfs.EvCreate && strings.HasSuffix(e.Path, ".walfile") && c.wal == "" {
			c.wal = e.Path
		}
		switch {
		case e.Kind == crashfs.EvFsync && e.Path == c.wal:
			c.fsyncs = append(c.fsyncs, i)
		case e.Kind == crashfs.EvSync:
			c.syncs = append(c.syncs, i)
		}
	}
	ord := 0
	for i, e := range cr.Events {
		if e.Kind != crashfs.EvWrite || e.Path != c.wal || len(e.Data) <= 16 {
			continue
		}
		// TGDATA payload (every other WAL message is 1, 8, 11 or 16 bytes long); other goroutines'
		// file operations may be interleaved between the pieces of a record
		{
			c.tgOrder[i] = ord
			ord++
			for op := range cr.Beg {
				if cr.H.Ops[op].Kind != "write" {
					continue
				}
				// any row of the request (rows of one slot are merged: only the last survives)
				nrows := 0
				for _, p := range cr.H.Ops[op].Parts {
					nrows += len(p.Epoch)
				}
				for r := 0; r < nrows; r++ {
					var tagb [8]byte
					binary.LittleEndian.PutUint64(tagb[:], uint64(wl.Tag(op, r)))
					if bytes.Contains(e.Data, tagb[:]) {
						if _, ok := c.tgOfOp[op]; !ok {
							c.tgOfOp[op] = i
						}
					}
				}
				// the witness row of the request
				base := 0
				for _, p := range cr.H.Ops[op].Parts {
					if cr.H.Buckets[p.Bucket].Sym == "W" {
						for r := range p.Epoch {
							var tagb [8]byte
							binary.LittleEndian.PutUint64(tagb[:], uint64(wl.Tag(op, base+r)))
							if bytes.Contains(e.Data, tagb[:]) {
								c.wTG[op] = i
							}
						}
					}
					base += len(p.Epoch)
				}
			}
		}
	}
	return c, nil
}

func firstAfter(list []int, i int) int {
	for _, x := range list {
		if x > i {
			return x
		}
	}
	return -1
}

// checkProtocol checks the trace invariants P1-P5.
func (c *c05Trace) checkProtocol() error {
	ev := c.cr.Events
	lastWalWrite := -1
	var lastCommit int64 = -1 << 62
	lastCkptDone, ckptPrep := -1, -1
	tgSinceCkpt := 0
	for i, e := range ev {
		switch {
		case e.Kind == crashfs.EvWrite && e.Path == c.wal:
			lastWalWrite = i
			if len(e.Data) == 11 && e.Data[0] == 1 {
				tgid := int64(binary.LittleEndian.Uint64(e.Data[1:9]))
				dest, status := e.Data[9], e.Data[10]
				if dest == 0 && status == 2 { // WAL COMMITCOMPLETE
					if tgid <= lastCommit {
						return fmt.Errorf("P5: TGID %d committed after TGID %d (event %d)", tgid, lastCommit, i)
					}
					lastCommit = tgid
					tgSinceCkpt++
				}
				if dest == 1 && status == 0 {
					ckptPrep = i
				}
				if dest == 1 && status == 2 {
					// P3: a sync() between PREPARING and COMMITCOMPLETE, no primary write after that sync
					s := firstAfter(c.syncs, ckptPrep)
					if ckptPrep < 0 || s < 0 || s > i {
						return fmt.Errorf("P3: checkpoint COMMITCOMPLETE (event %d) without a sync() after its PREPARING record", i)
					}
					for j := s; j < i; j++ {
						if ev[j].Kind == crashfs.EvWrite && strings.HasSuffix(ev[j].Path, ".bin") && ev[j].Off >= 37024 {
							return fmt.Errorf("P3: primary write (event %d) between the checkpoint's sync() and its COMMITCOMPLETE", j)
						}
					}
					lastCkptDone = i
					tgSinceCkpt = 0
				}
			}
		case e.Kind == crashfs.EvWrite && strings.HasSuffix(e.Path, ".bin") && e.Off >= 37024:
			// P1: the WAL was fsynced after its last write and before this primary write
			f := firstAfter(c.fsyncs, lastWalWrite)
			if lastWalWrite < 0 || f < 0 || f > i {
				return fmt.Errorf("P1: primary write (event %d: %s) although the WAL record written at event %d is not yet fsynced", i, e.Describe(), lastWalWrite)
			}
		case e.Kind == crashfs.EvTruncate && e.Path == c.wal && e.Size == 0:
			// P4: nothing but checkpointed transactions in the WAL
			if tgSinceCkpt > 0 {
				return fmt.Errorf("P4: WAL truncated (event %d) while %d transaction group(s) committed after the last checkpoint (event %d) are in it", i, tgSinceCkpt, lastCkptDone)
			}
		}
	}
	// P2: every ACK after the fsync that covers the op's TGDATA
	for op, a := range c.cr.Ack {
		if c.cr.H.Ops[op].Kind != "write" {
			continue
		}
		w, ok := c.tgOfOp[op]
		if !ok {
			return fmt.Errorf("P2: write op %d acknowledged (event %d) but its data is in no WAL transaction group written before", op, a)
		}
		f := firstAfter(c.fsyncs, w)
		if w > a || f < 0 || f > a {
			return fmt.Errorf("P2: write op %d acknowledged at event %d before its transaction group (event %d) was fsynced (next fsync at %d)", op, a, w, f)
		}
	}
	return nil
}

// C05 WAL protocol: replay, checkpoint and rotation never lose commits.
func TestC05(t *testing.T) {
	rec := hx.R("C05")
	stride := envInt("VERIF_STRIDE", 3)
	if cr, r, ok := loadCrashReplay(); ok {
		defer cr.cleanup()
		c, _ := analyseBg(cr)
		if err := c.checkProtocol(); err != nil {
			t.Fatalf("replay: %v", err)
		}
		if r.K > 0 {
			if err := c.checkRecoveryVariant(r.K, r.Variant, rec); err != nil {
				t.Fatalf("replay crash point %d: %v", r.K, err)
			}
		}
		return
	}
	rapid.Check(t, func(t *rapid.T) {
		h := genBgHistory(t, envInt("VERIF_MAXOPS", 4))
		cr, err := runTraced(h)
		if err != nil {
			t.Fatalf("traced run: %v", err)
		}
		defer cr.cleanup()
		for op, e := range cr.Err {
			t.Fatalf("write op %d rejected: %s", op, e)
		}
		c, _ := analyseBg(cr)
		if err := c.checkProtocol(); err != nil {
			cr.saveReplay("C05", 0, nil, err.Error())
			t.Fatalf("%v\nhistory: %s", err, histJSON(h))
		}
		// classes of this trace
		rot, ckpt, multi := 0, 0, 0
		perTG := map[int]int{}
		for _, w := range c.tgOfOp {
			perTG[w]++
		}
		for _, n := range perTG {
			if n > 1 {
				multi++
			}
		}
		for _, e := range cr.Events {
			if e.Kind == crashfs.EvTruncate && e.Path == c.wal {
				rot++
			}
		}
		ckpt = len(cr.CkptDone)
		cls := []string{fmt.Sprintf("writers=%d", h.Writers)}
		if rot > 0 {
			cls = append(cls, "trace-with-rotation")
		}
		if ckpt > 0 {
			cls = append(cls, "trace-with-checkpoint")
		}
		if multi > 0 {
			cls = append(cls, "TG-with-several-requests")
		}
		hkey := hx.Hash(histJSON(h), len(cr.Events))
		off := rapid.IntRange(0, stride-1).Draw(t, "phase")
		for pi, k := range cr.Points {
			if pi%stride != off && k != len(cr.Events) {
				continue
			}
			nt := ""
			if rot > 0 || ckpt > 0 || multi > 0 {
				nt = fmt.Sprint(hkey, "/", k)
			}
			rec.Case(nt, cls...)
			if err := c.checkRecovery(k, rec); err != nil {
				msg := fmt.Sprintf("crash point %d of %d (after %q): %v", k, len(cr.Events), evDesc(cr, k-1), err)
				cr.saveReplay("C05", k, nil, msg)
				t.Fatalf("%s\nhistory: %s", msg, histJSON(h))
			}
		}
		if k, v, err := c.powerLossAtSyncs(rec, func(k int) string { return fmt.Sprint(hkey, "/pl/", k) }, cls); err != nil {
			msg := fmt.Sprintf("crash point %d of %d (directly before %q), %s: %v", k, len(cr.Events), evDesc(cr, k), v.Desc, err)
			cr.saveReplay("C05", k, v, msg)
			t.Fatalf("%s\nhistory: %s", msg, histJSON(h))
		}
		rec.Sample(map[string]interface{}{"history": h, "events": len(cr.Events), "rotations": rot, "checkpoints": ckpt, "tgs_with_several_requests": multi})
		rec.Flush()
	})
	rec.Flush()
}

// checkRecovery is P6 at crash point k: acknowledged requests are recovered, and the
// witness slot shows a transaction at least as late (in commit order) as every
// acknowledged one.
func (c *c05Trace) checkRecovery(k int, rec *hx.Rec) error {
	return c.checkRecoveryVariant(k, nil, rec)
}

// powerLossAtSyncs is P6 under the power-loss model at the protocol's own synchronisation points:
// directly before every global sync() (the checkpoint window: PREPARING written, primary data
// still in the page cache) the unsynced primary-file writes are dropped, once keeping and once
// dropping the unsynced WAL records.
func (c *c05Trace) powerLossAtSyncs(rec *hx.Rec, nt func(k int) string, cls []string) (int, *crashfs.Variant, error) {
	cr := c.cr
	for _, s := range c.syncs {
		pend := crashfs.Pending(cr.Events, s)
		var prim []int
		for _, i := range pend {
			if strings.HasSuffix(cr.Events[i].Path, ".bin") && cr.Events[i].Off >= 37024 {
				prim = append(prim, i)
			}
		}
		if len(prim) == 0 {
			continue
		}
		mk := func(desc string, drop []int) *crashfs.Variant {
			v := &crashfs.Variant{Drop: map[int]bool{}, Desc: desc}
			for _, i := range drop {
				v.Drop[i] = true
			}
			return v
		}
		vs := []*crashfs.Variant{mk("power loss before sync(): unsynced primary-file data lost, WAL records kept", prim)}
		if len(prim) < len(pend) {
			all := []int{}
			for _, i := range pend {
				if !(strings.HasSuffix(cr.Events[i].Path, ".bin") && cr.Events[i].Off < 37024) && !strings.HasSuffix(cr.Events[i].Path, "category_name") {
					all = append(all, i)
				}
			}
			vs = append(vs, mk("power loss before sync(): every unsynced data write lost", all))
		}
		for _, v := range vs {
			rec.Case(nt(s)+v.Desc, append(cls, "power-loss-at-sync")...)
			if err := c.checkRecoveryVariant(s, v, rec); err != nil {
				return s, v, err
			}
		}
	}
	return 0, nil, nil
}

func (c *c05Trace) checkRecoveryVariant(k int, v *crashfs.Variant, rec *hx.Rec) error {
	cr := c.cr
	a, _, _ := cr.materializeAndRestart(k, v, cr.H.Buckets, nil, false)
	if !a.OK {
		// the KF-03a window also exists in bg mode: data rewrite and index update are two calls
		if cr.kf03aPoint(k) && hx.KFOpen("KF-03a") && strings.Contains(a.Stderr, "unable to replay") {
			rec.Exclude("KF-03a")
			rec.KF("KF-03a", "start-up panics after a crash between in-place data rewrite and index update")
			return nil
		}
		return fmt.Errorf("restart fails: %s", restartFailure(a))
	}
	rows := historyRows(cr.H)
	present := map[int64]bool{}
	witness := int64(-1)
	for _, bd := range a.Dump.Buckets {
		if bd.Error != "" {
			// buckets being created at the crash are not asserted on
			continue
		}
		for i, tg := range bd.Tag {
			present[tg] = true
			if bd.Key == "W/1Min/G" && i == 0 {
				witness = tg
			}
		}
	}
	maxAckTG, maxAckOp := -1, -1
	for _, w := range rows {
		if !cr.acked(w.op, k) {
			continue
		}
		if cr.H.Buckets[w.bucket].Sym == "W" {
			if tgi, ok := c.wTG[w.op]; ok && c.tgOrder[tgi] > maxAckTG {
				maxAckTG, maxAckOp = c.tgOrder[tgi], w.op
			}
			continue
		}
		if cr.H.Buckets[w.bucket].Variable {
			if !present[w.tag] {
				return fmt.Errorf("variable-length record tag=%d of acknowledged op %d (writer %d) is missing after recovery", w.tag, w.op, cr.H.Ops[w.op].Writer)
			}
			continue
		}
		// fixed own bucket: single writer per bucket, so last acknowledged or a later issued one
		ok := present[w.tag]
		if !ok {
			for _, w2 := range rows {
				if w2.bucket == w.bucket && w2.slot == w.slot && (w2.op > w.op || (w2.op == w.op && w2.row > w.row)) && cr.issued(w2.op, k) && present[w2.tag] {
					ok = true
				}
			}
		}
		if !ok {
			return fmt.Errorf("bucket %s slot %d: value of acknowledged op %d is missing after recovery", cr.H.Buckets[w.bucket].Sym, w.slot, w.op)
		}
	}
	if maxAckOp >= 0 {
		if witness < 0 {
			return fmt.Errorf("witness slot empty although op %d writing it was acknowledged", maxAckOp)
		}
		wop := int(witness>>20) - 1
		tgi, ok := c.wTG[wop]
		if !ok || !cr.issued(wop, k) {
			return fmt.Errorf("witness slot holds tag %d of op %d, which was not issued / is in no transaction group", witness, wop)
		}
		if c.tgOrder[tgi] < maxAckTG {
			return fmt.Errorf("commit order violated: witness slot holds the value of op %d (transaction group #%d) although op %d in the later group #%d was acknowledged",
				wop, c.tgOrder[tgi], maxAckOp, maxAckTG)
		}
	}
	return nil
}
