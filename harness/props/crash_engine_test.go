package props

import (
	"bytes"
	"encoding/json"
	"fmt"
	"os"
	"os/exec"
	"path/filepath"
	"strconv"
	"strings"
	"time"

	"pgregory.net/rapid"

	"verifharness/crashfs"
	"verifharness/hx"
	"verifharness/wl"
)

const straceSyscalls = "openat,read,pread64,write,pwrite64,lseek,ftruncate,fsync,fdatasync,sync,syncfs,unlinkat,unlink,rmdir,renameat,renameat2,rename,mkdirat,mkdir,close"

// crashRun is one traced execution of a history.
type crashRun struct {
	H      *wl.History
	Events []crashfs.Event
	Dir    string // scratch dir holding the trace
	Root   string // data root the traced run used
	Trace  string // path of the strace log
	Beg    map[int]int
	Ack    map[int]int
	Err    map[int]string
	// per write op: index of its first / last primary-file (*.bin) write event (sync mode attribution)
	FirstPrim, LastPrim map[int]int
	CkptDone            []int // event indices of WAL "CHECKPOINT COMMITCOMPLETE" writes
	Points              []int
	// l2PrimaryWritten: set by C34 while it judges a second-level crash state in which the interrupted
	// start-up's replay had already written primary data (KF-02a's window at the second level)
	l2PrimaryWritten bool
}

func binDir() string {
	if d := os.Getenv("VERIF_BIN"); d != "" {
		return d
	}
	return "/tmp/vb"
}

// runTraced executes history h under strace on an empty root and parses the trace.
func runTraced(h *wl.History) (*crashRun, error) {
	dir := hx.ScratchDir("trace")
	root := filepath.Join(dir, "root")
	hp := filepath.Join(dir, "history.json")
	if err := wl.WriteJSON(hp, h); err != nil {
		return nil, err
	}
	trace := filepath.Join(dir, "trace.txt")
	cmd := exec.Command("strace", "-f", "-y", "-xx", "-s", "100000000", "-o", trace, "-e", "trace="+straceSyscalls,
		filepath.Join(binDir(), "mkwork"), hp, root)
	cmd.Env = append(os.Environ(), "GOGC=off", "TZ=UTC")
	var out, errb bytes.Buffer
	cmd.Stdout, cmd.Stderr = &out, &errb
	if err := cmd.Run(); err != nil {
		return nil, fmt.Errorf("traced workload failed: %v\nstdout: %s\nstderr: %.2000s", err, out.String(), errb.String())
	}
	return parseRun(h, dir, trace, root)
}

func parseRun(h *wl.History, dir, trace, root string) (*crashRun, error) {
	ev, err := crashfs.ParseFile(trace, root)
	if err != nil {
		return nil, err
	}
	cr := &crashRun{H: h, Events: ev, Dir: dir, Trace: trace, Root: root, Beg: map[int]int{}, Ack: map[int]int{}, Err: map[int]string{},
		FirstPrim: map[int]int{}, LastPrim: map[int]int{}}
	cur := -1
	for i, e := range ev {
		switch e.Kind {
		case crashfs.EvMark:
			f := strings.Fields(e.Mark)
			if len(f) >= 2 {
				n, _ := strconv.Atoi(f[1])
				switch f[0] {
				case "BEG":
					cr.Beg[n] = i
					cur = n
				case "ACK":
					cr.Ack[n] = i
					cur = -1
				case "ERR":
					cr.Err[n] = e.Mark
					cur = -1
				}
			}
		case crashfs.EvWrite:
			if strings.HasSuffix(e.Path, ".bin") && e.Off >= 37024 && cur >= 0 && h.Mode == "sync" {
				if _, ok := cr.FirstPrim[cur]; !ok {
					cr.FirstPrim[cur] = i
				}
				cr.LastPrim[cur] = i
			}
			if strings.HasSuffix(e.Path, ".walfile") && len(e.Data) == 11 && e.Data[0] == 1 && e.Data[9] == 1 && e.Data[10] == 2 {
				cr.CkptDone = append(cr.CkptDone, i)
			}
		}
	}
	cr.Points = crashfs.CrashPoints(ev)
	return cr, nil
}

func (cr *crashRun) cleanup() { os.RemoveAll(cr.Dir) }

func (cr *crashRun) acked(op, k int) bool  { a, ok := cr.Ack[op]; return ok && a < k }
func (cr *crashRun) issued(op, k int) bool { b, ok := cr.Beg[op]; return ok && b < k }

// covered: a checkpoint completed after op's last primary write and before k.
func (cr *crashRun) covered(op, k int) bool {
	lp, ok := cr.LastPrim[op]
	if !ok {
		return false
	}
	for _, c := range cr.CkptDone {
		if c > lp && c < k {
			return true
		}
	}
	return false
}

// restartResult is the observation of one fresh-process restart.
type restartResult struct {
	OK     bool
	Exit   int
	Stderr string
	Dump   *wl.Dump
	// Second: when the start-up set a WAL file aside (*.tmp), the observation of one more
	// start-up on the same directory ("replayed once": it must find nothing to do)
	Second *restartResult
}

// restartOn runs mkrestart on root for the given bucket specs. A restart that does not finish
// within 60 s is tried once more with a 5 min bound (a loaded machine must not look like a hang);
// only a restart that exceeds both bounds is reported as a hang.
func restartOn(root string, specs []wl.BucketSpec, phase string) *restartResult {
	res := restartOnce(root, specs, phase, 60*time.Second)
	if res.Exit == -9 {
		hx.R("engine").Add("slow_restart_retried", 1)
		res = restartOnce(root, specs, phase, 300*time.Second)
	}
	return res
}

func restartOnce(root string, specs []wl.BucketSpec, phase string, bound time.Duration) *restartResult {
	tmp := filepath.Dir(root)
	sp := filepath.Join(tmp, "specs-"+phase+".json")
	op := filepath.Join(tmp, "dump-"+phase+".json")
	wl.WriteJSON(sp, specs)
	os.Remove(op)
	cmd := exec.Command(filepath.Join(binDir(), "mkrestart"), root, sp, op, phase)
	cmd.Env = append(os.Environ(), "GOGC=off", "GOMAXPROCS=1", "TZ=UTC")
	var errb bytes.Buffer
	cmd.Stderr = &errb
	cmd.Stdout = nil
	done := make(chan error, 1)
	if err := cmd.Start(); err != nil {
		return &restartResult{Exit: -1, Stderr: err.Error()}
	}
	go func() { done <- cmd.Wait() }()
	select {
	case err := <-done:
		res := &restartResult{Stderr: tail(errb.String(), 3000)}
		if err != nil {
			res.Exit = 1
			if ee, ok := err.(*exec.ExitError); ok {
				res.Exit = ee.ExitCode()
			}
			return res
		}
		var d wl.Dump
		if e := wl.ReadJSON(op, &d); e != nil {
			res.Exit = -2
			res.Stderr += "\nno dump: " + e.Error()
			return res
		}
		res.OK, res.Dump = true, &d
		return res
	case <-time.After(bound):
		cmd.Process.Kill()
		<-done
		return &restartResult{Exit: -9, Stderr: fmt.Sprintf("restart did not finish within %v (hang)\n", bound) + tail(errb.String(), 2000)}
	}
}

func tail(s string, n int) string {
	if len(s) > n {
		return s[len(s)-n:]
	}
	return s
}

// materializeAndRestart builds the crash state (k, variant) in a scratch dir and restarts on it.
// specsA are dumped in the first process; specsB (buckets still being created at the crash) in a second one.
func (cr *crashRun) materializeAndRestart(k int, v *crashfs.Variant, specsA, specsB []wl.BucketSpec, keep bool) (a, b *restartResult, root string) {
	dir := hx.ScratchDir("crash")
	root = filepath.Join(dir, "root")
	if err := crashfs.Materialize(cr.Events, k, v, root); err != nil {
		return &restartResult{Exit: -3, Stderr: "materialize: " + err.Error()}, nil, root
	}
	a = restartOn(root, specsA, "A")
	if a.OK {
		for _, f := range a.Dump.WALFiles {
			if strings.HasSuffix(f, ".tmp") {
				a.Second = restartOn(root, specsA, "A2")
				break
			}
		}
	}
	if a.OK && len(specsB) > 0 {
		b = restartOn(root, specsB, "B")
	}
	if !keep {
		os.RemoveAll(dir)
	}
	return a, b, root
}

// crashReplay is the replay file of a crash-engine failure.
type crashReplay struct {
	Prop    string           `json:"property"`
	History *wl.History      `json:"history"`
	K       int              `json:"crash_point"`
	Variant *crashfs.Variant `json:"variant,omitempty"`
	K2      int              `json:"second_level_crash_point,omitempty"`
	Event   string           `json:"last_event_before_crash"`
	Next    string           `json:"next_event"`
	Msg     string           `json:"failure"`
	Root    string           `json:"traced_root"`
	Trace   string           `json:"strace_log"`
}

func (cr *crashRun) saveReplay(prop string, k int, v *crashfs.Variant, msg string) string {
	tr, _ := os.ReadFile(cr.Trace)
	r := crashReplay{Prop: prop, History: cr.H, K: k, Variant: v, Msg: msg, Trace: string(tr), Root: cr.Root}
	if k > 0 && k <= len(cr.Events) {
		r.Event = cr.Events[k-1].Describe()
	}
	if k < len(cr.Events) {
		r.Next = cr.Events[k].Describe()
	}
	return hx.SaveReplay(prop, r)
}

// loadCrashReplay rebuilds a crashRun from a replay file (the saved trace is
// re-parsed, so bg-mode failures replay deterministically).
func loadCrashReplay() (*crashRun, *crashReplay, bool) {
	var r crashReplay
	if !hx.LoadReplay(&r) {
		return nil, nil, false
	}
	dir := hx.ScratchDir("replay")
	trace := filepath.Join(dir, "trace.txt")
	os.WriteFile(trace, []byte(r.Trace), 0o644)
	cr, err := parseRun(r.History, dir, trace, r.Root)
	if err != nil {
		panic(err)
	}
	return cr, &r, true
}

// ---- history generation -----------------------------------------------------

type histOpts struct {
	minOps, maxOps int
	varBias        int // 0..100: probability (in %) that a bucket is variable-length
	checkpoints    bool
	multiPart      bool
	sameInterval   int  // 0..100: probability that a write re-uses an earlier interval of its bucket
	uniqueSlots    bool // every (bucket, interval) is written at most once in the history
	destroys       bool // histories contain Destroy requests of buckets written before (C03 only)
}

var crashTFs = []string{"1Min", "1D", "1H", "1Sec"}

// genHistory draws a sync-mode history: 2-3 buckets, ops over two years.
func genHistory(t *rapid.T, o histOpts) *wl.History {
	h := &wl.History{Mode: "sync"}
	nb := rapid.IntRange(2, 3).Draw(t, "nbuckets")
	for i := 0; i < nb; i++ {
		variable := rapid.IntRange(0, 99).Draw(t, "isvar") < o.varBias
		tf := rapid.SampledFrom([]string{"1Min", "1Min", "1H", "1D"}).Draw(t, "tf")
		if variable && rapid.IntRange(0, 5).Draw(t, "sec") == 0 {
			tf = "1Sec"
		}
		h.Buckets = append(h.Buckets, wl.BucketSpec{Sym: fmt.Sprintf("%c%d", 'A'+i, i), TF: tf, Variable: variable})
	}
	used := map[int][]int64{} // bucket -> epochs used so far
	nops := rapid.IntRange(o.minOps, o.maxOps).Draw(t, "nops")
	years := []int64{1577836800, 1609459200} // 2020-01-01, 2021-01-01
	for len(h.Ops) < nops {
		if o.checkpoints && len(h.Ops) > 0 && rapid.IntRange(0, 3).Draw(t, "ckpt") == 0 {
			h.Ops = append(h.Ops, wl.Op{Kind: "checkpoint"})
			continue
		}
		if o.destroys && len(h.Ops) > 0 && rapid.IntRange(0, 4).Draw(t, "destroy") == 0 {
			var live []int
			for bi := range h.Buckets {
				if len(used[bi]) > 0 {
					live = append(live, bi)
				}
			}
			if len(live) > 0 {
				bi := rapid.SampledFrom(live).Draw(t, "victim")
				h.Ops = append(h.Ops, wl.Op{Kind: "destroy", Bucket: bi})
				used[bi] = nil
				continue
			}
		}
		op := wl.Op{Kind: "write"}
		nparts := 1
		if o.multiPart && rapid.IntRange(0, 3).Draw(t, "multi") == 0 {
			nparts = 2
		}
		first := rapid.IntRange(0, nb-1).Draw(t, "bucket")
		for pi := 0; pi < nparts; pi++ {
			bi := (first + pi) % nb
			if pi > 0 && h.Buckets[bi].Variable != h.Buckets[first].Variable {
				break // one request has one record type
			}
			tfSec := int64(hx.TFDuration(h.Buckets[bi].TF).Seconds())
			nrows := rapid.IntRange(1, 3).Draw(t, "nrows")
			p := wl.Part{Bucket: bi}
			for r := 0; r < nrows; r++ {
				var e int64
				if len(used[bi]) > 0 && rapid.IntRange(0, 99).Draw(t, "reuse") < o.sameInterval {
					e = rapid.SampledFrom(used[bi]).Draw(t, "reused")
				} else {
					y := rapid.SampledFrom(years).Draw(t, "year")
					slot := rapid.Int64Range(1, 40).Draw(t, "slot") // avoid Jan 1 (KF-08a) for 1D
					e = y + slot*tfSec + rapid.Int64Range(0, tfSec-1).Draw(t, "off")
				}
				if o.uniqueSlots {
					clash := false
					for _, u := range used[bi] {
						if hx.SlotStart(u, hx.TFDuration(h.Buckets[bi].TF)) == hx.SlotStart(e, hx.TFDuration(h.Buckets[bi].TF)) {
							clash = true
						}
					}
					if clash {
						continue
					}
				}
				used[bi] = append(used[bi], e)
				p.Epoch = append(p.Epoch, e)
				if h.Buckets[bi].Variable {
					p.Nanos = append(p.Nanos, int32(rapid.IntRange(0, 999999000).Draw(t, "ns")))
				}
			}
			if len(p.Epoch) > 0 {
				op.Parts = append(op.Parts, p)
			}
		}
		if len(op.Parts) == 0 {
			continue
		}
		h.Ops = append(h.Ops, op)
	}
	return h
}

func histJSON(h *wl.History) string {
	b, _ := json.Marshal(h)
	return string(b)
}

// ---- model of a history -------------------------------------------------------

type wrRow struct {
	op, row  int
	bucket   int
	epoch    int64
	nanos    int32
	slot     int64
	tag      int64
	val      int32
	lastInOp bool // last row of this op for its (bucket, slot)
}

func historyRows(h *wl.History) []wrRow {
	var out []wrRow
	for oi, op := range h.Ops {
		if op.Kind != "write" {
			continue
		}
		row := 0
		start := len(out)
		for _, p := range op.Parts {
			tf := hx.TFDuration(h.Buckets[p.Bucket].TF)
			for i, e := range p.Epoch {
				w := wrRow{op: oi, row: row, bucket: p.Bucket, epoch: e, slot: hx.SlotStart(e, tf), tag: wl.Tag(oi, row), val: int32(oi*1000 + row)}
				if h.Buckets[p.Bucket].Variable && p.Nanos != nil {
					w.nanos = p.Nanos[i]
				}
				out = append(out, w)
				row++
			}
		}
		seen := map[string]bool{}
		for i := len(out) - 1; i >= start; i-- {
			key := fmt.Sprint(out[i].bucket, "/", out[i].slot)
			if !seen[key] {
				seen[key] = true
				out[i].lastInOp = true
			}
		}
	}
	return out
}

// existsAt: the state of bucket bi at crash point k in a sequential history: exists (its last
// acknowledged request is a write) and settled (no create/destroy of it in flight).
func existsAt(cr *crashRun, k, bi int) (exists, settled bool) {
	settled = true
	for oi, op := range cr.H.Ops {
		touches := false
		switch op.Kind {
		case "write":
			for _, p := range op.Parts {
				if p.Bucket == bi {
					touches = true
				}
			}
		case "destroy":
			touches = op.Bucket == bi
		}
		if !touches || !cr.issued(oi, k) {
			continue
		}
		if !cr.acked(oi, k) {
			if op.Kind == "destroy" || !exists {
				settled = false
			}
			continue
		}
		exists = op.Kind == "write"
	}
	return
}

// creatingOp returns for each bucket the op that first writes it (and thereby creates it).
func creatingOp(h *wl.History) map[int]int {
	out := map[int]int{}
	for oi, op := range h.Ops {
		for _, p := range op.Parts {
			if _, ok := out[p.Bucket]; !ok {
				out[p.Bucket] = oi
			}
		}
	}
	return out
}

func dumpFor(d *wl.Dump, key string) *wl.BucketDump {
	if d == nil {
		return nil
	}
	for i := range d.Buckets {
		if d.Buckets[i].Key == key {
			return &d.Buckets[i]
		}
	}
	return nil
}

// kf03aPoint: crash point k lies between the in-place rewrite of a variable-length
// interval's data and the update of its 24-byte index record (writer.go).
func (cr *crashRun) kf03aPoint(k int) bool { return kf03aPointIn(cr.Events, k) }

func kf03aPointIn(events []crashfs.Event, k int) bool {
	return kf03aFile(events, k) != ""
}

// kf03aFile returns the variable-length year file whose interval is in KF-03a's window at crash
// point k ("" if none): the LAST event on that file before k is a data-area write that rewrites
// an interval in place (an earlier write to the file started at the same offset), and the NEXT
// event on that file is the interval's 24-byte index write. Events of other files (bucket
// creation by another writer goroutine, acknowledgement markers) may lie in between.
func kf03aFile(events []crashfs.Event, k int) string {
	if k <= 0 || k >= len(events) {
		return ""
	}
	last := map[string]int{}
	for i := 0; i < k; i++ {
		if e := &events[i]; e.Kind != crashfs.EvMark && strings.HasSuffix(e.Path, ".bin") {
			last[e.Path] = i
		}
	}
	for path, ai := range last {
		a := &events[ai]
		if a.Kind != crashfs.EvWrite || a.Off < 37024 {
			continue
		}
		var b *crashfs.Event
		for i := k; i < len(events); i++ {
			if events[i].Path == path && events[i].Kind != crashfs.EvMark {
				b = &events[i]
				break
			}
		}
		// (the data area lies behind the index area: a compressed single record can itself be 24 bytes long)
		if b == nil || b.Kind != crashfs.EvWrite || len(b.Data) != 24 || b.Off >= a.Off {
			continue
		}
		for i := 0; i < ai; i++ {
			e := &events[i]
			if e.Kind == crashfs.EvWrite && e.Path == path && e.Off == a.Off {
				return path
			}
		}
	}
	return ""
}
