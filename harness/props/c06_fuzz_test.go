package props

import (
	"bytes"
	"crypto/md5"
	"encoding/binary"
	"encoding/gob"
	"flag"
	"fmt"
	"os"
	"path/filepath"
	"sort"
	"strings"
	"sync"
	"testing"

	"github.com/alpacahq/marketstore/v4/catalog"
	"github.com/alpacahq/marketstore/v4/executor"
	"github.com/alpacahq/marketstore/v4/frontend"
	"github.com/alpacahq/marketstore/v4/utils/io"

	"verifharness/hx"
)

// FuzzC06 is the byte-level, coverage-guided companion of TestC06 (thorough tier;
// the committed corpus and the seeds run in every tier as plain tests).
//
// A real WAL is produced once per process by executing a small history (three
// buckets: fixed 1D, fixed 1H, variable 1H; five transactions with unique tags).
// The state "WAL synced, primary data not yet written" is rebuilt for every input:
// year files with their headers only, the fuzzer's bytes as the left-over WAL.
// The production replay entry point (executor.WALCleaner.CleanupOldWALFiles, what
// internal/di calls at start-up) runs in-process.
//
// Oracle: no panic, no log.Fatal, no error (start-up would abort on one); every tag
// found in the buckets afterwards belongs to a transaction whose TGDATA record is
// present byte for byte in the input ("nothing from a damaged transaction is
// applied"); every transaction that lies completely inside the longest common
// prefix of the input and the original WAL has been applied.

type fzTG struct {
	Start, End int    // byte range of the whole group in the original WAL (prepare .. commit complete)
	Rec        []byte // the TGDATA message (id, length, data, checksum)
	Tags       []int64
}

type fzFile struct {
	Rel  string
	Head []byte // small files: whole content; year files: header
	Size int64
}

type fzTemplate struct {
	Files   []fzFile
	Dirs    []string
	WAL     []byte
	WALName string
	TGs     []fzTG
}

var fz struct {
	once sync.Once
	err  error
	fzTemplate
	buckets []*hx.Bucket
}

// The fuzzing engine runs the target in worker processes; the template (a real WAL
// and the directory it belongs to) is produced once by the coordinating process and
// handed to its workers through a file, so that all of them agree on its bytes.
func fzTemplatePath() string {
	pid := os.Getpid()
	if fl := flag.Lookup("test.fuzzworker"); fl != nil && fl.Value.String() == "true" {
		pid = os.Getppid()
	}
	return filepath.Join(os.TempDir(), fmt.Sprintf("verif-fz06-%d.gob", pid))
}

func fzSetup() {
	hx.FatalAsPanic()
	schema := []io.DataShape{{Name: "Tag", Type: io.INT64}}
	fz.buckets = []*hx.Bucket{
		{Sym: "FD", TF: "1D", Group: "G", Schema: schema},
		{Sym: "FH", TF: "1H", Group: "G", Schema: schema},
		{Sym: "VH", TF: "1H", Group: "G", Schema: schema, Variable: true},
	}
	p := fzTemplatePath()
	if b, err := os.ReadFile(p); err == nil {
		fz.err = gob.NewDecoder(bytes.NewReader(b)).Decode(&fz.fzTemplate)
		return
	}
	fzBuild()
	if fz.err == nil {
		var buf bytes.Buffer
		if fz.err = gob.NewEncoder(&buf).Encode(&fz.fzTemplate); fz.err == nil {
			fz.err = os.WriteFile(p, buf.Bytes(), 0o600)
		}
	}
}

func fzBuild() {
	root := hx.ScratchDir("fz-tmpl")
	defer os.RemoveAll(root)
	in := hx.NewInst(root, hx.InstOpts{})
	// first rows create the buckets (year 2021); that part of the WAL is checkpointed away by a restart
	base := int64(1612137600) // 2021-02-01
	for i, b := range fz.buckets {
		r := &hx.Rows{Epoch: []int64{base}, Names: []string{"Tag"}, Cols: []interface{}{[]int64{int64(900 + i)}}}
		if b.Variable {
			r.Nanos = []int32{0}
		}
		if err := in.WriteVia(b, r, 1); err != nil {
			fz.err = err
			return
		}
	}
	in.Close()
	in = hx.NewInst(root, hx.InstOpts{}) // replays and removes the first WAL
	// snapshot of the directory: everything except WAL files
	filepath.Walk(root, func(p string, fi os.FileInfo, err error) error {
		if err != nil || p == root {
			return nil
		}
		rel, _ := filepath.Rel(root, p)
		switch {
		case fi.IsDir():
			fz.Dirs = append(fz.Dirs, rel)
		case strings.HasSuffix(rel, ".walfile"):
		case strings.HasSuffix(rel, ".bin"):
			b, _ := os.ReadFile(p)
			// keep everything up to the last non-zero byte (header + the creating rows)
			n := len(b)
			for n > 0 && b[n-1] == 0 {
				n--
			}
			fz.Files = append(fz.Files, fzFile{Rel: rel, Head: append([]byte{}, b[:n]...), Size: fi.Size()})
		default:
			b, _ := os.ReadFile(p)
			fz.Files = append(fz.Files, fzFile{Rel: rel, Head: b, Size: fi.Size()})
		}
		return nil
	})
	walPath := in.WAL.FilePtr.Name()
	fz.WALName = filepath.Base(walPath)
	size := func() int {
		fi, _ := os.Stat(walPath)
		return int(fi.Size())
	}
	tag := int64(1)
	for op := 0; op < 5; op++ {
		b := fz.buckets[op%3]
		before := size()
		n := 1 + op%2
		r := &hx.Rows{Names: []string{"Tag"}}
		var tags []int64
		var col []int64
		for j := 0; j < n; j++ {
			r.Epoch = append(r.Epoch, base+int64(86400*(2+op*3+j)))
			if b.Variable {
				r.Nanos = append(r.Nanos, int32(1000*j))
			}
			col = append(col, tag)
			tags = append(tags, tag)
			tag++
		}
		r.Cols = []interface{}{col}
		if err := in.WriteVia(b, r, 1); err != nil {
			fz.err = err
			return
		}
		fz.TGs = append(fz.TGs, fzTG{Start: before, End: size(), Tags: tags})
	}
	fz.WAL, _ = os.ReadFile(walPath)
	for i := range fz.TGs {
		g := &fz.TGs[i]
		if g.End-g.Start < 11+9+16+11 || fz.WAL[g.Start] != 1 || fz.WAL[g.Start+11] != 0 {
			fz.err = fmt.Errorf("WAL layout not recognised for transaction %d: [%d,%d)", i, g.Start, g.End)
			return
		}
		g.Rec = fz.WAL[g.Start+11 : g.End-11]
	}
	in.Close()
}

// fzState rebuilds the pre-replay directory and returns its root.
func fzState(wal []byte) string {
	root := hx.ScratchDir("fz")
	for _, d := range fz.Dirs {
		os.MkdirAll(filepath.Join(root, d), 0o770)
	}
	for _, f := range fz.Files {
		p := filepath.Join(root, f.Rel)
		os.WriteFile(p, f.Head, 0o660)
		if f.Size > int64(len(f.Head)) {
			os.Truncate(p, f.Size)
		}
	}
	os.WriteFile(filepath.Join(root, fz.WALName), wal, 0o600)
	return root
}

func fzCheck(data []byte) (err error) {
	root := fzState(data)
	defer os.RemoveAll(root)
	defer func() {
		if r := recover(); r != nil {
			err = fmt.Errorf("replay panics: %v", r)
		}
	}()
	if e := executor.NewWALCleaner("", 4242).CleanupOldWALFiles([]string{filepath.Join(root, fz.WALName)}); e != nil {
		return fmt.Errorf("start-up replay returns an error (the server would not start): %v", e)
	}
	cat, e := catalog.NewDirectory(root)
	if e != nil {
		return fmt.Errorf("catalog after replay: %v", e)
	}
	qs := frontend.NewQueryService(cat)
	present := map[int64]bool{}
	for _, b := range fz.buckets {
		csm, e := qs.ExecuteQuery(b.TBK(), hx.WideStart, hx.WideEnd, 0, false, nil)
		if e != nil {
			return fmt.Errorf("query of %s after replay: %v", b.Key(), e)
		}
		for _, cs := range csm {
			col, ok := cs.GetColumn("Tag").([]int64)
			if !ok {
				return fmt.Errorf("%s: Tag column is %T", b.Key(), cs.GetColumn("Tag"))
			}
			for _, v := range col {
				present[v] = true
			}
		}
	}
	// common prefix with the original WAL
	p := 0
	for p < len(data) && p < len(fz.WAL) && data[p] == fz.WAL[p] {
		p++
	}
	// KF-06g: a forged "CHECKPOINT COMMITCOMPLETE" transaction-info record after the intact prefix
	// makes replay skip intact transactions; while that finding is open the prefix assertion is
	// not made for such inputs
	forged := false
	if hx.KFOpen("KF-06g") {
		for i := p - 10; i+11 <= len(data); i++ {
			if i < 0 {
				continue
			}
			if data[i] == 1 && data[i+9] == 1 && data[i+10] == 2 &&
				!(i+11 <= len(fz.WAL) && bytes.Equal(data[i:i+11], fz.WAL[i:i+11])) {
				forged = true
				break
			}
		}
	}
	// A tag may appear only if it lies inside a complete, checksum-valid TGDATA record of the input
	// (found by an own tolerant scan: every offset is tried as the start of a record). Records of an
	// older template WAL in the fuzzing engine's cached corpus are valid records too.
	allowed := map[int64]bool{900: true, 901: true, 902: true}
	valid := fzValidRecords(data)
	for _, g := range fz.TGs {
		intact := bytes.Contains(data, g.Rec)
		for _, tg := range g.Tags {
			var tb [8]byte
			binary.LittleEndian.PutUint64(tb[:], uint64(tg))
			for _, r := range valid {
				if bytes.Contains(r, tb[:]) {
					intact = true
				}
			}
			if intact {
				allowed[tg] = true
			}
			if g.End <= p && !present[tg] && !forged {
				return fmt.Errorf("transaction [%d,%d) lies inside the intact prefix (%d bytes) but its tag %d was not applied", g.Start, g.End, p, tg)
			}
		}
	}
	var bad []int64
	for tg := range present {
		if !allowed[tg] {
			bad = append(bad, tg)
		}
	}
	if len(bad) > 0 {
		sort.Slice(bad, func(i, j int) bool { return bad[i] < bad[j] })
		return fmt.Errorf("tags %v are in the buckets although their transaction records are not intact in the log", bad)
	}
	return nil
}

// fzValidRecords returns the payloads of all checksum-valid TGDATA records found at any offset.
func fzValidRecords(data []byte) [][]byte {
	var out [][]byte
	for i := 0; i+9+16 <= len(data); i++ {
		if data[i] != 0 {
			continue
		}
		n := int64(binary.LittleEndian.Uint64(data[i+1:]))
		if n < 16 || n > int64(len(data)) || int64(i)+9+n+16 > int64(len(data)) {
			continue
		}
		h := md5.New()
		h.Write(data[i+1 : i+9])
		h.Write(data[i+9 : int64(i)+9+n])
		if bytes.Equal(h.Sum(nil), data[int64(i)+9+n:int64(i)+9+n+16]) {
			out = append(out, data[i+9:int64(i)+9+n])
		}
	}
	return out
}

func FuzzC06(f *testing.F) {
	fz.once.Do(fzSetup)
	if fz.err != nil {
		f.Fatalf("setup: %v", fz.err)
	}
	if fl := flag.Lookup("test.fuzzworker"); fl == nil || fl.Value.String() != "true" {
		f.Cleanup(func() { os.Remove(fzTemplatePath()) })
	}
	w := fz.WAL
	f.Add(w)
	f.Add(w[:len(w)/2])
	f.Add(w[:11])
	for _, g := range fz.TGs {
		f.Add(w[:g.End])
		f.Add(w[:g.Start+11+5])
		c := append([]byte{}, w...)
		c[g.Start+11+1] = 0xff // length field
		f.Add(c)
		c = append([]byte{}, w...)
		c[g.Start+11+9+8] ^= 0x40 // WT count
		f.Add(c)
		f.Add(append(append([]byte{}, w...), w[g.Start:g.End]...)) // duplicated group
	}
	f.Add(append([]byte{}, w[:11]...))
	f.Add(bytes.Repeat([]byte{0}, 64))
	f.Add(bytes.Repeat([]byte{1}, 64))
	f.Add(bytes.Repeat([]byte{2, 0xff}, 40))
	rec := hx.R("C06")
	f.Fuzz(func(t *testing.T, data []byte) {
		if len(data) > 1<<16 {
			t.Skip()
		}
		if err := fzCheck(data); err != nil {
			t.Fatalf("%v (input %d bytes, original WAL %d bytes)", err, len(data), len(fz.WAL))
		}
		rec.Add("fuzz_inputs_checked", 1)
	})
}
