package props

import (
	"fmt"
	"os"
	"path/filepath"
	"sort"
	"strings"
	"sync"
	"sync/atomic"
	"testing"
	"time"

	"github.com/alpacahq/marketstore/v4/catalog"
	"github.com/alpacahq/marketstore/v4/frontend"
	"github.com/alpacahq/marketstore/v4/utils/io"
	"pgregory.net/rapid"

	"verifharness/hx"
)

// C17 Catalog stays consistent with disk.
//
// TestC17 has a sequential part (state machine against a model, the three
// views "live catalog", "disk" and "fresh catalog on the same root" compared
// after every step, with reopen steps) and a concurrent part (generated
// programs over the same small key space, views compared at quiescence; built
// with the race detector).

var c17Schemas = [][]io.DataShape{
	{{Name: "A", Type: io.INT64}},
	{{Name: "A", Type: io.INT64}, {Name: "B", Type: io.FLOAT32}},
	{{Name: "Z", Type: io.INT32}},
}

type c17Key struct{ sym, tf, grp string }

func (k c17Key) String() string { return k.sym + "/" + k.tf + "/" + k.grp }

var (
	c17Syms = []string{"S0", "S1", "S2"}
	c17TFs  = []string{"1Min", "1H"}
	c17Grps = []string{"G", "H"}
)

func c17DrawKey(t *rapid.T) c17Key {
	return c17Key{rapid.SampledFrom(c17Syms).Draw(t, "sym"), rapid.SampledFrom(c17TFs).Draw(t, "tf"), rapid.SampledFrom(c17Grps).Draw(t, "grp")}
}

// c17Views reads the three views of the catalog. Each is a sorted list of
// "sym/tf/grp/year" strings.
type c17Views struct {
	live, disk, fresh []string
	listed            []string // ListSymbols(format=tbk)
	symbols           []string // ListSymbols(format=symbol)
	freshErr          error
}

func c17Rel(root, p string) string {
	r, err := filepath.Rel(root, p)
	if err != nil {
		return p
	}
	return strings.TrimSuffix(r, ".bin")
}

func c17Read(in *hx.Inst) (*c17Views, error) {
	v := &c17Views{}
	l, err := in.Cat.GatherTimeBucketInfo()
	if err != nil {
		return nil, fmt.Errorf("GatherTimeBucketInfo: %w", err)
	}
	for _, f := range l {
		v.live = append(v.live, c17Rel(in.Root, f.Path))
	}
	sort.Strings(v.live)
	m, _ := filepath.Glob(filepath.Join(in.Root, "*", "*", "*", "*.bin"))
	for _, p := range m {
		v.disk = append(v.disk, c17Rel(in.Root, p))
	}
	sort.Strings(v.disk)
	fc, err := catalog.NewDirectory(in.Root)
	if err != nil {
		// an empty root is reported with this error by design (cmd/start treats it as "new root")
		if !strings.Contains(err.Error(), "not contain") && !strings.Contains(err.Error(), "category_name") {
			v.freshErr = err
		}
	}
	if fc != nil {
		fl, err := fc.GatherTimeBucketInfo()
		if err != nil {
			return nil, fmt.Errorf("fresh GatherTimeBucketInfo: %w", err)
		}
		for _, f := range fl {
			v.fresh = append(v.fresh, c17Rel(in.Root, f.Path))
		}
		sort.Strings(v.fresh)
	}
	resp := &frontend.ListSymbolsResponse{}
	if err := in.DS.ListSymbols(nil, &frontend.ListSymbolsRequest{Format: "tbk"}, resp); err != nil {
		return nil, fmt.Errorf("ListSymbols(tbk): %w", err)
	}
	v.listed = append([]string{}, resp.Results...)
	sort.Strings(v.listed)
	resp2 := &frontend.ListSymbolsResponse{}
	if err := in.DS.ListSymbols(nil, &frontend.ListSymbolsRequest{Format: "symbol"}, resp2); err != nil {
		return nil, fmt.Errorf("ListSymbols(symbol): %w", err)
	}
	v.symbols = append([]string{}, resp2.Results...)
	sort.Strings(v.symbols)
	return v, nil
}

func c17Keys(files []string) []string {
	set := map[string]bool{}
	for _, f := range files {
		set[filepath.Dir(f)] = true
	}
	out := []string{}
	for k := range set {
		out = append(out, k)
	}
	sort.Strings(out)
	return out
}

func c17Syms2(keys []string) []string {
	set := map[string]bool{}
	for _, k := range keys {
		set[strings.SplitN(k, "/", 2)[0]] = true
	}
	out := []string{}
	for k := range set {
		out = append(out, k)
	}
	sort.Strings(out)
	return out
}

// c17Consistent compares the views with each other; want (may be nil) is the model's file list.
func c17Consistent(v *c17Views, want []string) error {
	j := func(s []string) string { return "[" + strings.Join(s, " ") + "]" }
	if v.freshErr != nil {
		return fmt.Errorf("a fresh catalog cannot be loaded from the root: %v (disk %s)", v.freshErr, j(v.disk))
	}
	if j(v.live) != j(v.disk) {
		return fmt.Errorf("live catalog lists %s, disk has %s", j(v.live), j(v.disk))
	}
	if j(v.fresh) != j(v.disk) {
		return fmt.Errorf("fresh catalog lists %s, disk has %s", j(v.fresh), j(v.disk))
	}
	if j(v.listed) != j(c17Keys(v.disk)) {
		return fmt.Errorf("ListSymbols(tbk) = %s, buckets on disk %s", j(v.listed), j(c17Keys(v.disk)))
	}
	if j(v.symbols) != j(c17Syms2(c17Keys(v.disk))) {
		return fmt.Errorf("ListSymbols(symbol) = %s, symbols on disk %s", j(v.symbols), j(c17Syms2(c17Keys(v.disk))))
	}
	if want != nil && j(want) != j(v.disk) {
		return fmt.Errorf("disk has %s, model expects %s", j(v.disk), j(want))
	}
	return nil
}

type c17MB struct {
	schema   int
	variable bool
	years    map[int]bool
	rows     map[int64]int64 // epoch -> tag (fixed: last; variable: epochs are unique by construction)
}

func c17Bucket(k c17Key, mb *c17MB) *hx.Bucket {
	return &hx.Bucket{Sym: k.sym, TF: k.tf, Group: k.grp, Schema: c17Schemas[mb.schema], Variable: mb.variable}
}

// c17RowsFor builds a one-row request for schema s carrying tag.
func c17RowsFor(s int, variable bool, epoch, tag int64) *hx.Rows {
	r := &hx.Rows{Epoch: []int64{epoch}}
	for _, ds := range c17Schemas[s] {
		r.Names = append(r.Names, ds.Name)
		switch ds.Type {
		case io.INT64:
			r.Cols = append(r.Cols, []int64{tag})
		case io.INT32:
			r.Cols = append(r.Cols, []int32{int32(tag)})
		case io.FLOAT32:
			r.Cols = append(r.Cols, []float32{float32(tag % 1000)})
		}
	}
	if variable {
		r.Nanos = []int32{0}
	}
	return r
}

func c17Tag(r *hx.Rows, i int) int64 {
	switch c := r.Cols[0].(type) {
	case []int64:
		return c[i]
	case []int32:
		return int64(c[i])
	}
	return -1
}

func c17GetInfo(in *hx.Inst, key string) (*frontend.GetInfoResponse, error) {
	resp := &frontend.MultiGetInfoResponse{}
	if err := in.DS.GetInfo(nil, &frontend.MultiKeyRequest{Requests: []frontend.KeyRequest{{Key: key}}}, resp); err != nil {
		return nil, err
	}
	if len(resp.Responses) != 1 {
		return nil, fmt.Errorf("%d responses", len(resp.Responses))
	}
	if resp.Responses[0].ServerResp.Error != "" {
		return nil, fmt.Errorf("%s", resp.Responses[0].ServerResp.Error)
	}
	return &resp.Responses[0], nil
}

func c17Destroy(in *hx.Inst, key string) error {
	resp := &frontend.MultiServerResponse{}
	if err := in.DS.Destroy(nil, &frontend.MultiKeyRequest{Requests: []frontend.KeyRequest{{Key: key}}}, resp); err != nil {
		return err
	}
	for _, r := range resp.Responses {
		if r.Error != "" {
			return fmt.Errorf("%s", r.Error)
		}
	}
	return nil
}

func TestC17(t *testing.T) {
	rec := hx.R("C17")
	nowYear := time.Now().Year()
	t.Run("seq", func(t *testing.T) {
		rapid.Check(t, func(t *rapid.T) {
			root := hx.ScratchDir("c17")
			defer os.RemoveAll(root)
			// background WAL writer as in production (short timers): a graceful shutdown then leaves nothing to replay
			opts := hx.InstOpts{WALRefresh: 2 * time.Millisecond, PrimaryRefresh: 15 * time.Millisecond, RotateInterval: 2}
			in := hx.NewInst(root, opts)
			defer func() { in.Close() }()
			model := map[c17Key]*c17MB{}
			var hist []string
			var nDestroyRecreate, nNewYear, nReopen, nSchemaChange int
			destroyed := map[c17Key]int{} // key -> schema it had when destroyed
			tagSeq := int64(0)
			dirty, dirtyAll := map[c17Key]bool{}, false
			wantFiles := func() []string {
				out := []string{}
				for k, mb := range model {
					for y := range mb.years {
						out = append(out, fmt.Sprintf("%s/%d", k, y))
					}
				}
				sort.Strings(out)
				return out
			}
			invariant := func(t *rapid.T) {
				v, err := c17Read(in)
				if err != nil {
					t.Fatalf("after %v: %v", hist, err)
				}
				if err := c17Consistent(v, wantFiles()); err != nil {
					t.Fatalf("after %v: %v", hist, err)
				}
				for k, mb := range model {
					b := c17Bucket(k, mb)
					// an all-time scan of a 1Min year file costs ~35 ms under the race detector: buckets
					// untouched since their last scan are re-scanned only after a reopen and at the end
					if !dirty[k] && !dirtyAll {
						continue
					}
					got, err := in.QueryAll(b)
					if err != nil {
						t.Fatalf("after %v: query of listed bucket %s fails: %v", hist, k, err)
					}
					if got.Len() != len(mb.rows) {
						t.Fatalf("after %v: %s returns %d rows, model has %d", hist, k, got.Len(), len(mb.rows))
					}
					for i := 0; i < got.Len(); i++ {
						if tag, ok := mb.rows[got.Epoch[i]]; !ok || tag != c17Tag(got, i) {
							t.Fatalf("after %v: %s row at %d has tag %d, model %d (present %v)", hist, k, got.Epoch[i], c17Tag(got, i), tag, ok)
						}
					}
					info, err := c17GetInfo(in, k.String())
					if err != nil {
						t.Fatalf("after %v: GetInfo(%s): %v", hist, k, err)
					}
					want := c17Schemas[mb.schema]
					if len(info.DSV) != len(want)+1 {
						t.Fatalf("after %v: %s has columns %v, model %v", hist, k, info.DSV, want)
					}
					for i, ds := range want {
						if info.DSV[i+1].Name != ds.Name || info.DSV[i+1].Type != ds.Type {
							t.Fatalf("after %v: %s has columns %v, model %v", hist, k, info.DSV, want)
						}
					}
					if (info.RecordType == io.VARIABLE) != mb.variable {
						t.Fatalf("after %v: %s record type %v, model variable=%v", hist, k, info.RecordType, mb.variable)
					}
				}
				dirty, dirtyAll = map[c17Key]bool{}, false
				// a bucket that is not in the model must not answer
				for _, s := range c17Syms {
					for _, tf := range c17TFs {
						for _, g := range c17Grps {
							k := c17Key{s, tf, g}
							if model[k] != nil {
								continue
							}
							if _, err := c17GetInfo(in, k.String()); err == nil {
								t.Fatalf("after %v: GetInfo answers for %s which does not exist", hist, k)
							}
						}
					}
				}
			}
			t.Repeat(map[string]func(*rapid.T){
				"create": func(t *rapid.T) {
					k := c17DrawKey(t)
					dirty[k] = true
					mb := model[k]
					exists := mb != nil
					if !exists {
						mb = &c17MB{schema: rapid.IntRange(0, len(c17Schemas)-1).Draw(t, "schema"),
							variable: rapid.IntRange(0, 3).Draw(t, "variable") == 0, years: map[int]bool{}, rows: map[int64]int64{}}
					}
					// (for an existing bucket the request repeats its schema: Create only looks at the
					// current year's file, and a bucket with two schemas is not this property's subject)
					err := in.Create(c17Bucket(k, mb))
					hist = append(hist, fmt.Sprintf("create(%s,schema%d,var=%v)=%v", k, mb.schema, mb.variable, err != nil))
					if exists {
						if mb.years[nowYear] && err == nil {
							t.Fatalf("after %v: creating a bucket whose %d file exists succeeds", hist, nowYear)
						}
						if err == nil {
							mb.years[nowYear] = true // the bucket had only other years: Create adds this year's file
						}
						return
					}
					if err != nil {
						t.Fatalf("after %v: create fails: %v", hist, err)
					}
					if ds, ok := destroyed[k]; ok {
						nDestroyRecreate++
						if ds != mb.schema {
							nSchemaChange++
						}
					}
					mb.years[nowYear] = true
					model[k] = mb
				},
				"write": func(t *rapid.T) {
					k := c17DrawKey(t)
					dirty[k] = true
					year := rapid.SampledFrom([]int{2019, 2020, 2021, nowYear}).Draw(t, "year")
					mb := model[k]
					fresh := mb == nil
					if fresh {
						mb = &c17MB{schema: rapid.IntRange(0, len(c17Schemas)-1).Draw(t, "schema"),
							variable: rapid.IntRange(0, 3).Draw(t, "variable") == 0, years: map[int]bool{}, rows: map[int64]int64{}}
					}
					tagSeq++
					tfSec := int64(hx.TFDuration(k.tf).Seconds())
					// unique interval per write for variable buckets; fixed buckets may overwrite
					slot := rapid.Int64Range(0, 40).Draw(t, "slot")
					if mb.variable {
						slot = 100 + tagSeq
					}
					epoch := time.Date(year, 1, 1, 0, 0, 0, 0, time.UTC).Unix() + tfSec*(slot+1)
					via := rapid.IntRange(0, 1).Draw(t, "via")
					err := in.WriteVia(c17Bucket(k, mb), c17RowsFor(mb.schema, mb.variable, epoch, tagSeq), via)
					hist = append(hist, fmt.Sprintf("write(%s,%d,slot%d)=%v", k, year, slot, err != nil))
					if err != nil {
						t.Fatalf("after %v: write fails: %v", hist, err)
					}
					if fresh {
						if ds, ok := destroyed[k]; ok {
							nDestroyRecreate++
							if ds != mb.schema {
								nSchemaChange++
							}
						}
						model[k] = mb
					} else if !mb.years[year] {
						nNewYear++
					}
					mb.years[year] = true
					mb.rows[epoch] = tagSeq
				},
				"writeOtherSchema": func(t *rapid.T) {
					// a write with another schema to an existing bucket must be rejected and change nothing
					k := c17DrawKey(t)
					dirty[k] = true
					mb := model[k]
					if mb == nil {
						t.Skip("no such bucket")
					}
					other := (mb.schema + 1 + rapid.IntRange(0, 1).Draw(t, "o")) % len(c17Schemas)
					year := rapid.SampledFrom([]int{2018, 2022}).Draw(t, "year")
					epoch := time.Date(year, 1, 1, 0, 0, 0, 0, time.UTC).Unix() + 3600*5
					err := in.WriteVia(&hx.Bucket{Sym: k.sym, TF: k.tf, Group: k.grp, Schema: c17Schemas[other], Variable: mb.variable},
						c17RowsFor(other, mb.variable, epoch, 99), 1)
					hist = append(hist, fmt.Sprintf("writeOtherSchema(%s,%d)=%v", k, year, err != nil))
					if err == nil {
						t.Fatalf("after %v: a write with columns %v into a bucket with columns %v is accepted", hist, c17Schemas[other], c17Schemas[mb.schema])
					}
				},
				"destroy": func(t *rapid.T) {
					k := c17DrawKey(t)
					err := c17Destroy(in, k.String())
					hist = append(hist, fmt.Sprintf("destroy(%s)=%v", k, err != nil))
					if model[k] == nil {
						if err == nil {
							t.Fatalf("after %v: destroying a bucket that does not exist succeeds", hist)
						}
						return
					}
					if err != nil {
						t.Fatalf("after %v: destroy fails: %v", hist, err)
					}
					destroyed[k] = model[k].schema
					delete(model, k)
				},
				"reopen": func(t *rapid.T) {
					if rapid.IntRange(0, 2).Draw(t, "really") != 0 {
						t.Skip("a restart costs ~100 ms under the race detector: one third of the draws")
					}
					in.Close()
					in = hx.NewInst(root, opts)
					nReopen++
					dirtyAll = true
					hist = append(hist, "reopen")
				},
				"": invariant,
			})
			dirtyAll = true
			invariant(t)
			nt := ""
			if nDestroyRecreate > 0 && nNewYear > 0 {
				nt = fmt.Sprint(hist)
				rec.Sample(map[string]interface{}{"part": "sequential", "history": hist})
			}
			rec.Case(nt, "seq", fmt.Sprintf("seq destroy-recreate=%v", nDestroyRecreate > 0), fmt.Sprintf("seq recreate-other-schema=%v", nSchemaChange > 0),
				fmt.Sprintf("seq new-year=%v", nNewYear > 0), fmt.Sprintf("seq reopen=%v", nReopen > 0))
		})
	})
	t.Run("conc", func(t *testing.T) {
		rapid.Check(t, func(t *rapid.T) { c17Conc(t, rec, nowYear) })
	})
	rec.Flush()
}

type c17Op struct {
	Kind string // create | write | destroy | query | list
	Key  c17Key
	Year int
	Slot int64
}

// c17Conc runs one generated concurrent program. Three classes:
//
//	none    - shared keys, no destroy: strict (every write succeeds, acknowledged writes are listed and returned)
//	private - every goroutine works on its own attribute group under the SHARED symbols and timeframes,
//	          destroys included: the expected final state of every key is computed exactly from its
//	          goroutine's program; the directory levels above the bucket (symbol, timeframe) are created
//	          and removed concurrently by all goroutines
//	shared  - shared keys with destroys: operations on a bucket that another goroutine destroys may
//	          fail; a server log.Fatal in that situation is KF-17b; the views must still agree at quiescence
func c17Conc(t *rapid.T, rec *hx.Rec, nowYear int) {
	ng := rapid.IntRange(2, 6).Draw(t, "goroutines")
	per := rapid.IntRange(4, 30).Draw(t, "opsPerGoroutine")
	nsym := rapid.IntRange(1, 2).Draw(t, "symbols")
	ngrp := rapid.IntRange(1, 2).Draw(t, "groups")
	mode := rapid.SampledFrom([]string{"none", "private", "private", "shared"}).Draw(t, "mode")
	progs := make([][]c17Op, ng)
	for g := range progs {
		for i := 0; i < per; i++ {
			grp := c17Grps[rapid.IntRange(0, ngrp-1).Draw(t, "grp")]
			if mode == "private" {
				grp = fmt.Sprintf("P%d%s", g, grp)
			}
			k := c17Key{c17Syms[rapid.IntRange(0, nsym-1).Draw(t, "sym")], rapid.SampledFrom(c17TFs).Draw(t, "tf"), grp}
			kinds := []string{"create", "create", "write", "write", "write", "query", "list"}
			if mode != "none" {
				kinds = append(kinds, "destroy", "destroy")
			}
			op := c17Op{Kind: rapid.SampledFrom(kinds).Draw(t, "kind"), Key: k,
				Year: rapid.SampledFrom([]int{2018, 2019, 2020, 2021, 2022, nowYear}).Draw(t, "year"), Slot: rapid.Int64Range(0, 5).Draw(t, "slot")}
			progs[g] = append(progs[g], op)
		}
	}
	hx.FatalAsPanic() // a log.Fatal of the server becomes a panic of the goroutine that ran into it
	root := hx.ScratchDir("c17c")
	defer os.RemoveAll(root)
	in := hx.NewInst(root, hx.InstOpts{WALRefresh: time.Duration(rapid.IntRange(1, 3).Draw(t, "walMs")) * time.Millisecond,
		PrimaryRefresh: time.Duration(rapid.IntRange(5, 30).Draw(t, "ckptMs")) * time.Millisecond, RotateInterval: 3})
	closed := false
	defer func() {
		if !closed {
			in.Close()
		}
	}()
	var mu sync.Mutex
	var fails []string
	fail := func(format string, a ...interface{}) {
		mu.Lock()
		if len(fails) < 6 {
			fails = append(fails, fmt.Sprintf(format, a...))
		}
		mu.Unlock()
	}
	var pendingPanics []string
	var fatalSeen int32 // KF-17b was hit: a real server would be gone, later observations of this program are not judged
	type ack struct {
		key   c17Key
		epoch int64
		tag   int64
	}
	acked := make([][]ack, ng)
	// private mode: exact per-key model, maintained by the key's only goroutine
	type pmodel struct {
		years map[int]bool
		rows  map[int64]int64
	}
	pm := make([]map[c17Key]*pmodel, ng)
	var wg sync.WaitGroup
	start := make(chan struct{})
	// one schema for every key in the concurrent part: the subject is the catalog, not schema validation
	for g := 0; g < ng; g++ {
		wg.Add(1)
		pm[g] = map[c17Key]*pmodel{}
		go func(g int) {
			defer wg.Done()
			cur := 0
			defer func() {
				if r := recover(); r != nil {
					msg := fmt.Sprint(r)
					if mode == "shared" && hx.KFOpen("KF-17b") && (atomic.LoadInt32(&fatalSeen) == 1 ||
						(strings.Contains(msg, "log.Fatal") && strings.Contains(msg, "no such file or directory") && c17FatalIsKF17b(progs, g, cur))) {
						if atomic.SwapInt32(&fatalSeen, 1) == 0 {
							rec.KF("KF-17b", msg)
						}
						rec.Exclude("KF-17b")
						return
					}
					if mode == "shared" && hx.KFOpen("KF-17b") && c17FatalIsKF17b(progs, g, cur) {
						// possibly the follow-on of another goroutine's log.Fatal on the same bucket (the
						// entry's lazy load was cut short, its fields are zero: e.g. "integer divide by
						// zero"), observed before that goroutine has recorded the log.Fatal: judged after
						// all goroutines have finished
						mu.Lock()
						pendingPanics = append(pendingPanics, fmt.Sprintf("goroutine %d panics in op %d %+v: %v", g, cur, progs[g][cur], r))
						mu.Unlock()
						return
					}
					fail("goroutine %d panics in op %d %+v: %v", g, cur, progs[g][cur], r)
				}
			}()
			<-start
			known := map[c17Key]bool{} // buckets this goroutine has itself seen created (a happens-before fact)
			for i, op := range progs[g] {
				cur = i
				b := c17Bucket(op.Key, &c17MB{schema: 0})
				m := pm[g][op.Key]
				switch op.Kind {
				case "create":
					err := in.Create(b)
					if err == nil {
						known[op.Key] = true
					}
					if mode == "private" {
						switch {
						case m == nil && err != nil:
							fail("goroutine %d op %d: create of %s fails: %v", g, i, op.Key, err)
						case m == nil:
							pm[g][op.Key] = &pmodel{years: map[int]bool{nowYear: true}, rows: map[int64]int64{}}
						case m.years[nowYear] && err == nil:
							fail("goroutine %d op %d: create of %s succeeds although its %d file exists", g, i, op.Key, nowYear)
						case err == nil:
							m.years[nowYear] = true
						}
					}
				case "write":
					tfSec := int64(hx.TFDuration(op.Key.tf).Seconds())
					epoch := time.Date(op.Year, 1, 1, 0, 0, 0, 0, time.UTC).Unix() + tfSec*(op.Slot+1)
					tag := int64(g+1)<<32 | int64(i+1)
					err := in.WriteVia(b, c17RowsFor(0, false, epoch, tag), 1)
					if err == nil {
						acked[g] = append(acked[g], ack{op.Key, epoch, tag})
						known[op.Key] = true
					} else if mode != "shared" {
						fail("goroutine %d op %d: write to %s (%d) fails although no other goroutine can destroy it: %v", g, i, op.Key, op.Year, err)
					}
					if mode == "private" && err == nil {
						if m == nil {
							m = &pmodel{years: map[int]bool{}, rows: map[int64]int64{}}
							pm[g][op.Key] = m
						}
						m.years[op.Year] = true
						m.rows[epoch] = tag
					}
				case "destroy":
					err := c17Destroy(in, op.Key.String())
					if mode == "private" {
						if (m != nil) != (err == nil) {
							fail("goroutine %d op %d: destroy of %s: exists=%v, error=%v", g, i, op.Key, m != nil, err)
						}
						delete(pm[g], op.Key)
					}
				case "query":
					got, err := in.QueryAll(b)
					if err != nil && mode != "shared" && known[op.Key] && !(mode == "private" && m == nil) {
						fail("goroutine %d op %d: query of %s fails although the bucket exists: %v", g, i, op.Key, err)
					}
					if mode == "private" && m != nil && err == nil {
						if got.Len() != len(m.rows) {
							fail("goroutine %d op %d: query of %s returns %d rows, its only writer wrote %d intervals", g, i, op.Key, got.Len(), len(m.rows))
						}
					}
				case "list":
					resp := &frontend.ListSymbolsResponse{}
					if err := in.DS.ListSymbols(nil, &frontend.ListSymbolsRequest{Format: "tbk"}, resp); err != nil {
						fail("goroutine %d: ListSymbols fails: %v", g, err)
					}
					if mode == "private" {
						// the goroutine's own buckets must be listed exactly while they exist
						have := map[string]bool{}
						for _, k := range resp.Results {
							have[k] = true
						}
						for k := range pm[g] {
							if !have[k.String()] {
								fail("goroutine %d op %d: ListSymbols misses %s which this goroutine created and did not destroy", g, i, k)
							}
						}
						for _, k := range resp.Results {
							p := strings.Split(k, "/")
							if len(p) == 3 && strings.HasPrefix(p[2], fmt.Sprintf("P%d", g)) && pm[g][c17Key{p[0], p[1], p[2]}] == nil {
								fail("goroutine %d op %d: ListSymbols lists %s which this goroutine destroyed or never created", g, i, k)
							}
						}
					}
				}
			}
		}(g)
	}
	close(start)
	wg.Wait()
	for _, p := range pendingPanics {
		if atomic.LoadInt32(&fatalSeen) == 1 {
			rec.Exclude("KF-17b") // in production the process had exited at the log.Fatal
		} else {
			fail("%s", p)
		}
	}
	var v *c17Views
	if atomic.LoadInt32(&fatalSeen) == 0 {
		// quiescence: let the background writer flush what is queued
		in.WAL.RequestFlush()
		var want []string
		if mode == "private" {
			want = []string{}
			for g := range pm {
				for k, m := range pm[g] {
					for y := range m.years {
						want = append(want, fmt.Sprintf("%s/%d", k, y))
					}
				}
			}
			sort.Strings(want)
		}
		var err error
		v, err = c17Read(in)
		if err != nil {
			fail("at quiescence: %v", err)
		} else {
			if err := c17Consistent(v, want); err != nil {
				fail("at quiescence: %v", err)
			}
			listed := map[string]bool{}
			for _, key := range v.listed {
				listed[key] = true
				p := strings.Split(key, "/")
				if len(p) != 3 {
					fail("ListSymbols returns %q", key)
					continue
				}
				b := &hx.Bucket{Sym: p[0], TF: p[1], Group: p[2], Schema: c17Schemas[0]}
				got, err := in.QueryAll(b)
				if err != nil {
					fail("at quiescence: query of listed bucket %s fails: %v", key, err)
					continue
				}
				have := map[int64]int64{}
				for i, e := range got.Epoch {
					have[e] = c17Tag(got, i)
				}
				switch mode {
				case "none":
					// nothing was destroyed: every acknowledged write must be there (another writer's value may have replaced it)
					for g := range acked {
						for _, a := range acked[g] {
							if _, ok := have[a.epoch]; a.key.String() == key && !ok {
								fail("at quiescence: acknowledged write to %s at %d is not returned", key, a.epoch)
							}
						}
					}
				case "private":
					for g := range pm {
						if m := pm[g][c17Key{p[0], p[1], p[2]}]; m != nil {
							if fmt.Sprint(have) != fmt.Sprint(m.rows) {
								fail("at quiescence: %s holds %v, its only writer left %v", key, have, m.rows)
							}
						}
					}
				}
			}
			if mode == "none" {
				for g := range acked {
					for _, a := range acked[g] {
						if !listed[a.key.String()] {
							fail("at quiescence: bucket %s received an acknowledged write but is not listed", a.key)
						}
					}
				}
			}
		}
	}
	in.Close()
	closed = true
	if len(fails) > 0 {
		t.Fatalf("goroutines=%d ops=%d symbols=%d groups=%d mode=%s:\n  %s\nprograms: %+v", ng, per, nsym, ngrp, mode, joinLines(fails), progs)
	}
	// non-trivial: a create/first write of a bucket of symbol S in one goroutine while another goroutine
	// writes to (or, with destroys, removes) a different bucket of S
	overlap := false
	for g := range progs {
		for _, a := range progs[g] {
			if a.Kind != "create" {
				continue
			}
			for h := range progs {
				if h == g {
					continue
				}
				for _, b := range progs[h] {
					if (b.Kind == "write" || b.Kind == "destroy") && b.Key.sym == a.Key.sym && b.Key != a.Key {
						overlap = true
					}
				}
			}
		}
	}
	nt := ""
	if overlap && atomic.LoadInt32(&fatalSeen) == 0 {
		nt = fmt.Sprint(progs)
		rec.Sample(map[string]interface{}{"part": "concurrent", "mode": mode, "goroutines": ng, "ops_per_goroutine": per, "symbols": nsym, "files_at_quiescence": v.disk})
	}
	rec.Case(nt, "conc", "conc mode="+mode, fmt.Sprintf("conc goroutines=%d", ng))
}

// c17FatalIsKF17b: the signature of KF-17b - the operation that ran into log.Fatal works on a
// bucket that another goroutine destroys in the same program.
func c17FatalIsKF17b(progs [][]c17Op, g, i int) bool {
	op := progs[g][i]
	if op.Kind != "write" && op.Kind != "query" && op.Kind != "create" {
		return false
	}
	for h := range progs {
		if h == g {
			continue
		}
		for _, o := range progs[h] {
			if o.Kind == "destroy" && o.Key == op.Key {
				return true
			}
		}
	}
	return false
}
