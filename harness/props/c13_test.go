package props

import (
	"fmt"
	"os"
	"sort"
	"strings"
	"testing"

	"github.com/alpacahq/marketstore/v4/frontend"
	"github.com/alpacahq/marketstore/v4/utils/io"
	"pgregory.net/rapid"

	"verifharness/hx"
)

// C13 Multi-symbol and column-projected queries agree with single queries.
func TestC13(t *testing.T) {
	rec := hx.R("C13")
	rapid.Check(t, func(t *rapid.T) {
		variable := rapid.Bool().Draw(t, "variable")
		tf := genCoarseTF(t)
		schema := hx.GenSchema(t, 4, hx.WireTypes)
		nsym := rapid.IntRange(2, 5).Draw(t, "nsymbols")
		mixed := rapid.IntRange(0, 7).Draw(t, "mixedSchema") == 0
		root := hx.ScratchDir("c13")
		defer os.RemoveAll(root)
		in := hx.NewInst(root, hx.InstOpts{})
		defer in.Close()
		pool := hx.NewTimePool(t, hx.TFDuration(tf), rapid.IntRange(1, 2).Draw(t, "nyears"))
		var stores []*storeCase
		realMixed := false
		for i := 0; i < nsym; i++ {
			sch := schema
			if mixed && i == nsym-1 {
				sch = append([]io.DataShape(nil), schema...)
				if len(sch) >= 2 && rapid.Bool().Draw(t, "permuteInsteadOfRetype") {
					// same column names and types, stored in another order
					perm := rapid.Permutation(sch).Draw(t, "columnOrder")
					for j := range perm {
						if perm[j].Name != sch[j].Name {
							realMixed = true
						}
					}
					sch = perm
				} else {
					k := rapid.IntRange(0, len(sch)-1).Draw(t, "retypeCol")
					nt := rapid.SampledFrom(hx.WireTypes).Draw(t, "newType")
					if nt != sch[k].Type {
						realMixed = true
					}
					sch[k].Type = nt
				}
			}
			sc := buildStore(t, rec, storeOpts{variable: variable, in: in, sym: fmt.Sprintf("SY%d", i), tf: tf, schema: sch, pool: pool, maxReq: 2, maxRows: 12})
			stores = append(stores, sc)
		}
		single := map[string]*hx.Rows{}
		for _, sc := range stores {
			single[sc.b.Key()] = sc.all
		}
		nq := rapid.IntRange(2, 6).Draw(t, "nqueries")
		for q := 0; q < nq; q++ {
			// symbol list
			var syms []string
			star := rapid.IntRange(0, 4).Draw(t, "star") == 0
			if star {
				syms = []string{"*"}
			} else {
				k := rapid.IntRange(1, nsym+2).Draw(t, "nlisted")
				for i := 0; i < k; i++ {
					switch rapid.IntRange(0, 5).Draw(t, "symkind") {
					case 0:
						syms = append(syms, "MISSING"+fmt.Sprint(i))
					default:
						syms = append(syms, fmt.Sprintf("SY%d", rapid.IntRange(0, nsym-1).Draw(t, "sym")))
					}
				}
			}
			// column list
			var colsReq []string
			if rapid.Bool().Draw(t, "project") {
				k := rapid.IntRange(1, len(schema)+2).Draw(t, "ncolsreq")
				for i := 0; i < k; i++ {
					switch rapid.IntRange(0, 6).Draw(t, "colkind") {
					case 0:
						colsReq = append(colsReq, "NoSuchColumn")
					case 1:
						colsReq = append(colsReq, "Epoch")
					default:
						colsReq = append(colsReq, schema[rapid.IntRange(0, len(schema)-1).Draw(t, "col")].Name)
					}
				}
			}
			dest := strings.Join(syms, ",") + "/" + tf + "/G"
			res, err := in.QueryAPI(frontend.QueryRequest{Destination: dest, Columns: colsReq})
			want := map[string]bool{}
			if star {
				for _, sc := range stores {
					want[sc.b.Key()] = true
				}
			} else {
				for _, s := range syms {
					if strings.HasPrefix(s, "SY") {
						want[s+"/"+tf+"/G"] = true
					}
				}
			}
			touchesMixed := realMixed && want[stores[nsym-1].b.Key()] && len(want) >= 2
			desc := fmt.Sprintf("query %q columns %v", dest, colsReq)
			if err != nil {
				if len(want) == 0 {
					rec.Case("", "only-missing-symbols:error")
					continue // nothing to return: an error ("no files returned") is a clean answer
				}
				if touchesMixed {
					rec.Case("", "mixed-schema:error")
					continue
				}
				t.Fatalf("%s: %v", desc, err)
			}
			for key := range res {
				if !want[key] {
					t.Fatalf("%s: result contains bucket %s which was not asked for", desc, key)
				}
			}
			for key := range want {
				base := single[key]
				got := res[key]
				if got == nil {
					if base.Len() == 0 {
						continue
					}
					t.Fatalf("%s: bucket %s (%d rows when queried alone) missing from the result", desc, key, base.Len())
				}
				if got.Len() != base.Len() {
					t.Fatalf("%s: bucket %s has %d rows, %d when queried alone", desc, key, got.Len(), base.Len())
				}
				if base.Len() == 0 {
					continue
				}
				for i := 0; i < base.Len(); i++ {
					if rowTimeNs(got, i) != rowTimeNs(base, i) {
						t.Fatalf("%s: bucket %s row %d at %d ns, %d when queried alone", desc, key, i, rowTimeNs(got, i), rowTimeNs(base, i))
					}
				}
				// columns
				wantCols := map[string]bool{}
				if colsReq == nil {
					for _, n := range base.Names {
						wantCols[n] = true
					}
				} else {
					for _, c := range colsReq {
						for _, n := range base.Names {
							if c == n {
								wantCols[n] = true
							}
						}
					}
				}
				gotCols := map[string]int{}
				for ci, n := range got.Names {
					if n == "Epoch0" || n == "Epoch" {
						continue // the time column requested explicitly comes back once more
					}
					gotCols[n] = ci
				}
				for n := range wantCols {
					ci, ok := gotCols[n]
					if !ok {
						t.Fatalf("%s: bucket %s lacks requested column %s (has %v)", desc, key, n, got.Names)
					}
					bi := -1
					for k, bn := range base.Names {
						if bn == n {
							bi = k
						}
					}
					if hx.GoTypeOf(got.Cols[ci]) != hx.GoTypeOf(base.Cols[bi]) || string(hx.ColBytes(got.Cols[ci])) != string(hx.ColBytes(base.Cols[bi])) {
						t.Fatalf("%s: bucket %s column %s differs from the single-symbol, unprojected query", desc, key, n)
					}
				}
				for n := range gotCols {
					ok := wantCols[n]
					// a column requested twice comes back twice; the decoder renames the copy <name><digits>
					for w := range wantCols {
						if strings.HasPrefix(n, w) && strings.Trim(n[len(w):], "0123456789") == "" {
							ok = true
						}
					}
					if strings.HasPrefix(n, "Epoch") && strings.Trim(n[5:], "0123456789") == "" {
						ok = true
					}
					if !ok {
						t.Fatalf("%s: bucket %s returns column %s which was not requested (requested %v)", desc, key, n, colsReq)
					}
				}
			}
			nt := ""
			counts := map[int]bool{}
			for key := range want {
				counts[single[key].Len()] = true
			}
			dropsAndKeeps := colsReq != nil
			if len(want) >= 2 && len(counts) >= 2 || dropsAndKeeps {
				keys := []string{}
				for k := range want {
					keys = append(keys, k)
				}
				sort.Strings(keys)
				nt = fmt.Sprint(keys, colsReq, variable, tf, hx.Hash(fmt.Sprint(single)))
				rec.Sample(map[string]interface{}{"destination": dest, "columns": colsReq, "variable": variable, "buckets_returned": len(res)})
			}
			cls := []string{fmt.Sprintf("variable=%v", variable), fmt.Sprintf("star=%v", star), fmt.Sprintf("projected=%v", colsReq != nil)}
			if touchesMixed {
				cls = append(cls, "mixed-schema:answered")
			}
			rec.Case(nt, cls...)
		}
	})
	rec.Flush()
}
