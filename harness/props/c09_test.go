package props

import (
	"fmt"
	"os"
	"testing"
	"time"

	"github.com/alpacahq/marketstore/v4/utils/io"
	"pgregory.net/rapid"

	"verifharness/hx"
)

// genVarRows draws n variable-length records for bucket b: intervals from the
// pool, nanosecond offsets inside the interval from boundary classes.
func genVarRows(t *rapid.T, b *hx.Bucket, pool *hx.TimePool, n int, payload string, rec *hx.Rec) *hx.Rows {
	tf := hx.TFDuration(b.TF)
	ivNs := tf.Nanoseconds()
	res := hx.ResolutionNs(tf)
	r := &hx.Rows{Nanos: []int32{}}
	// few intervals per request so that many records share one
	nIv := rapid.IntRange(1, 4).Draw(t, "nintervals")
	var slots []int64
	for i := 0; i < nIv; i++ {
		e, cls := pool.Draw(t)
		slots = append(slots, hx.SlotStart(e, tf))
		rec.Class(cls, 1)
	}
	offGen := rapid.OneOf(
		rapid.SampledFrom([]int64{0, 1, res - 1, res, res + 1, ivNs - 1, ivNs - res, ivNs / 2, 999999999, 1000000000}),
		rapid.Int64Range(0, ivNs-1),
		rapid.Map(rapid.Int64Range(0, (ivNs-1)/res), func(k int64) int64 { return k * res }),
		rapid.Map(rapid.Int64Range(0, (ivNs-1)/1e9), func(k int64) int64 { return k*1e9 + 999999990 }),
	)
	for i := 0; i < n; i++ {
		s := rapid.SampledFrom(slots).Draw(t, "slot")
		off := offGen.Draw(t, "offns")
		if off < 0 {
			off = 0
		}
		if off >= ivNs {
			off = ivNs - 1
		}
		r.Epoch = append(r.Epoch, s+off/1e9)
		r.Nanos = append(r.Nanos, int32(off%1e9))
	}
	for _, ds := range b.Schema {
		r.Names = append(r.Names, ds.Name)
		var col interface{}
		switch payload {
		case "constant":
			one := hx.GenColumnBits(t, ds.Type, 1, ds.Name)
			col = repeatCol(one, n)
		case "few":
			few := hx.GenColumnBits(t, ds.Type, 3, ds.Name)
			idx := rapid.SliceOfN(rapid.IntRange(0, 2), n, n).Draw(t, "fewidx")
			col = pickCol(few, idx)
		default:
			col = hx.GenColumnBits(t, ds.Type, n, ds.Name)
		}
		r.Cols = append(r.Cols, col)
	}
	return r
}

func repeatCol(one interface{}, n int) interface{} {
	idx := make([]int, n)
	return pickCol(one, idx)
}

func pickCol(src interface{}, idx []int) interface{} {
	switch c := src.(type) {
	case []int8:
		o := make([]int8, len(idx))
		for i, k := range idx {
			o[i] = c[k]
		}
		return o
	case []uint8:
		o := make([]uint8, len(idx))
		for i, k := range idx {
			o[i] = c[k]
		}
		return o
	case []int16:
		o := make([]int16, len(idx))
		for i, k := range idx {
			o[i] = c[k]
		}
		return o
	case []uint16:
		o := make([]uint16, len(idx))
		for i, k := range idx {
			o[i] = c[k]
		}
		return o
	case []int32:
		o := make([]int32, len(idx))
		for i, k := range idx {
			o[i] = c[k]
		}
		return o
	case []uint32:
		o := make([]uint32, len(idx))
		for i, k := range idx {
			o[i] = c[k]
		}
		return o
	case []int64:
		o := make([]int64, len(idx))
		for i, k := range idx {
			o[i] = c[k]
		}
		return o
	case []uint64:
		o := make([]uint64, len(idx))
		for i, k := range idx {
			o[i] = c[k]
		}
		return o
	case []float32:
		o := make([]float32, len(idx))
		for i, k := range idx {
			o[i] = c[k]
		}
		return o
	case []float64:
		o := make([]float64, len(idx))
		for i, k := range idx {
			o[i] = c[k]
		}
		return o
	case [][16]rune:
		o := make([][16]rune, len(idx))
		for i, k := range idx {
			o[i] = c[k]
		}
		return o
	}
	panic(fmt.Sprintf("pickCol %T", src))
}

// C09 Variable-length buckets keep every record in time order.
func TestC09(t *testing.T) {
	rec := hx.R("C09")
	rapid.Check(t, func(t *rapid.T) {
		tf := hx.GenTF(t)
		b := &hx.Bucket{Sym: "V", TF: tf, Group: "TICK", Variable: true, Schema: hx.GenSchema(t, 4, hx.WireTypes)}
		pool := hx.NewTimePool(t, hx.TFDuration(tf), rapid.IntRange(1, 3).Draw(t, "nyears"))
		root := hx.ScratchDir("c09")
		defer os.RemoveAll(root)
		in := hx.NewInst(root, hx.InstOpts{})
		defer in.Close()
		m := hx.NewMBucket(b)
		if rapid.Bool().Draw(t, "createFirst") {
			if err := in.Create(b); err != nil {
				t.Fatalf("create: %v", err)
			}
		}
		nreq := rapid.IntRange(1, 6).Draw(t, "nreq")
		slow := hx.TFDuration(tf) < 5*time.Minute
		maxPerReq, compressible := 0, false
		skip := func(s int64) bool { return tf == "1D" && jan1Slot(s) && hx.KFOpen("KF-08a") }
		check := func(step string) {
			got, err := in.QueryAll(b)
			if err != nil {
				t.Fatalf("%s: all-time query: %v", step, err)
			}
			if err := m.CheckVarAll(got, skip); err != nil {
				t.Fatalf("%s: %v", step, err)
			}
			if tf == "1D" && hx.KFOpen("KF-08a") {
				seen := map[int64]bool{}
				for _, e := range got.Epoch {
					seen[hx.SlotStart(e, 24*time.Hour)] = true
				}
				done := map[int64]bool{}
				for _, v := range m.Var {
					if s := hx.SlotStart(v.TimeNs/1e9, 24*time.Hour); jan1Slot(s) && !done[s] {
						done[s] = true
						rec.Exclude("KF-08a")
						if !seen[s] {
							rec.KF("KF-08a", "1D records dated Jan 1 are not returned")
						}
					}
				}
			}
		}
		for q := 0; q < nreq; q++ {
			n := rapid.OneOf(rapid.IntRange(1, 5), rapid.IntRange(1, 60), rapid.IntRange(500, 3000)).Draw(t, "nrec")
			payload := rapid.SampledFrom([]string{"random", "random", "constant", "few"}).Draw(t, "payload")
			if n > maxPerReq {
				maxPerReq = n
			}
			if payload != "random" && n >= 200 {
				compressible = true
			}
			rows := genVarRows(t, b, pool, n, payload, rec)
			via := rapid.IntRange(0, 1).Draw(t, "via")
			if err := in.WriteVia(b, rows, via); err != nil {
				t.Fatalf("write %d: %v", q, err)
			}
			m.Apply(rows, q)
			if !slow {
				check(fmt.Sprintf("after request %d", q))
			}
		}
		check("at end")

		// non-trivial: >= 2 requests hit one interval, or a highly compressible interval
		perSlotOps := map[int64]map[int]bool{}
		for _, v := range m.Var {
			s := hx.SlotStart(v.TimeNs/1e9, hx.TFDuration(tf))
			if perSlotOps[s] == nil {
				perSlotOps[s] = map[int]bool{}
			}
			perSlotOps[s][v.Op] = true
		}
		multi := false
		for _, ops := range perSlotOps {
			if len(ops) >= 2 {
				multi = true
			}
		}
		nt := ""
		if multi || compressible {
			nt = fmt.Sprint(tf, b.Schema, len(m.Var), hx.Hash(fmt.Sprint(m.Var)))
			rec.Sample(map[string]interface{}{"tf": tf, "schema": fmt.Sprint(b.Schema), "requests": nreq,
				"records": len(m.Var), "intervals": len(perSlotOps), "multi_request_interval": multi, "compressible": compressible})
		}
		cls := []string{"tf:" + tf, fmt.Sprintf("years=%d", len(m.Years))}
		if multi {
			cls = append(cls, "interval-hit-by>=2-requests")
		}
		if compressible {
			cls = append(cls, "compressible>=200-records")
		}
		rec.Case(nt, cls...)
	})
	rec.Flush()
}

var _ = io.VARIABLE
