package props

import (
	"bytes"
	"fmt"
	"testing"

	"github.com/alpacahq/marketstore/v4/utils/io"
	"pgregory.net/rapid"

	"verifharness/hx"
)

// C29 Row serialization round-trips with alignment.
//
// Domain: column series over every fixed-width wire type, 1-40 data columns,
// 0-500 rows, align in {false,true}; values are raw bit patterns.
// Oracle: names, order, element types and bytes of every column identical after
// SerializeColumnsToRows -> NewRowSeries -> ToColumnSeries (both the
// ColumnSeries.ToRowSeries path the writer uses and the explicit
// NewRowSeries(..., FIXED) path the reader uses).
func TestC29(t *testing.T) {
	rec := hx.R("C29")
	rapid.Check(t, func(t *rapid.T) {
		schema := hx.GenSchema(t, rapid.SampledFrom([]int{3, 8, 40}).Draw(t, "maxcols"), hx.WireTypes)
		n := rapid.OneOf(rapid.IntRange(0, 5), rapid.IntRange(0, 60), rapid.IntRange(0, 500)).Draw(t, "rows")
		align := rapid.Bool().Draw(t, "align")
		viaReader := rapid.Bool().Draw(t, "viaNewRowSeries")

		cs := io.NewColumnSeries()
		epoch := hx.GenColumnBits(t, io.INT64, n, "epoch").([]int64)
		cs.AddColumn("Epoch", epoch)
		want := map[string][]byte{"Epoch": hx.ColBytes(epoch)}
		names := []string{"Epoch"}
		types := map[string]io.EnumElementType{"Epoch": io.INT64}
		recLen := 8
		for _, ds := range schema {
			col := hx.GenColumnBits(t, ds.Type, n, ds.Name)
			cs.AddColumn(ds.Name, col)
			want[ds.Name] = hx.ColBytes(col)
			names = append(names, ds.Name)
			types[ds.Name] = ds.Type
			recLen += hx.TypeSize(ds.Type)
		}
		dsv := cs.GetDataShapes()

		var out *io.ColumnSeries
		if viaReader {
			data, rl, err := io.SerializeColumnsToRows(cs, dsv, align)
			if err != nil {
				t.Fatalf("SerializeColumnsToRows: %v", err)
			}
			wantRL := recLen
			if align && wantRL%8 != 0 {
				wantRL += 8 - wantRL%8
			}
			if rl != wantRL {
				t.Fatalf("record length %d, want %d (align=%v)", rl, wantRL, align)
			}
			if len(data) != rl*n {
				t.Fatalf("serialized %d bytes, want %d rows x %d", len(data), n, rl)
			}
			rs := io.NewRowSeries(*io.NewTimeBucketKey("T/1Min/X"), data, dsv, rl, io.FIXED)
			_, out = rs.ToColumnSeries()
		} else {
			rs, err := cs.ToRowSeries(*io.NewTimeBucketKey("T/1Min/X"), align)
			if err != nil {
				t.Fatalf("ToRowSeries: %v", err)
			}
			_, out = rs.ToColumnSeries()
		}

		nt := ""
		if align && recLen%8 != 0 && n > 0 {
			nt = fmt.Sprint(dsv, n, hx.Hash(want))
		}
		cls := []string{fmt.Sprintf("align=%v", align), fmt.Sprintf("viaNewRowSeries=%v", viaReader)}
		if n == 0 {
			cls = append(cls, "rows=0")
		}
		rec.Case(nt, cls...)
		if nt != "" {
			rec.Sample(map[string]interface{}{"schema": fmt.Sprint(dsv), "rows": n, "align": align, "record_len": recLen})
		}

		if n == 0 {
			// no rows: nothing to compare but the call must not fail
			return
		}
		got := out.GetColumnNames()
		if fmt.Sprint(got) != fmt.Sprint(names) {
			t.Fatalf("column names/order: got %v want %v", got, names)
		}
		for _, name := range names {
			col := out.GetColumn(name)
			if !bytes.Equal(hx.ColBytes(col), want[name]) {
				t.Fatalf("column %s (%v): values differ after round trip", name, types[name])
			}
			if gt := hx.GoTypeOf(col); gt != hx.ExpectedGoType(types[name]) {
				if types[name] == io.BYTE && gt == "[]uint8" && hx.KFOpen("KF-29a") {
					rec.KF("KF-29a", "i1 column read back as u1")
					continue
				}
				t.Fatalf("column %s: element type changed: wrote %v (%s), read %s", name, types[name],
					hx.ExpectedGoType(types[name]), gt)
			}
		}
	})
	rec.Flush()
}
