package props

import (
	"fmt"
	"sort"
	"strings"
	"testing"

	"github.com/alpacahq/marketstore/v4/utils/io"
	"pgregory.net/rapid"

	"verifharness/hx"
)

// C20 SQL projection, alias, LIMIT and INSERT INTO behave relationally.
func TestC20(t *testing.T) {
	rec := hx.R("C20")
	rapid.Check(t, func(t *rapid.T) {
		variable := rapid.Bool().Draw(t, "variable")
		sc := genSQLStore(t, rec, variable)
		defer sc.close()
		key := sc.b.Key()
		base, _, err := runSQL(sc.in, fmt.Sprintf("SELECT * FROM `%s`;", key))
		if err != nil {
			t.Fatalf("SELECT *: %v", err)
		}
		if base.Len() == 0 {
			if sc.b.TF == "1D" {
				rec.Exclude("KF-08a")
				return
			}
			t.Fatalf("SELECT * returns no rows")
		}
		colOf := func(r *hx.Rows, name string) interface{} {
			for i, n := range r.Names {
				if n == name {
					return r.Cols[i]
				}
			}
			return nil
		}
		// ---- projections / aliases / LIMIT
		nst := rapid.IntRange(2, 6).Draw(t, "nstatements")
		for s := 0; s < nst; s++ {
			perm := rapid.Permutation(sc.b.Schema).Draw(t, "perm")
			k := rapid.IntRange(1, len(perm)).Draw(t, "nselected")
			sel := perm[:k]
			var items []string
			outName := map[string]string{}
			aliased := false
			for i, ds := range sel {
				if rapid.Bool().Draw(t, "alias") {
					a := fmt.Sprintf("al%d%s", i, rapid.StringMatching(`[A-Za-z]{1,4}`).Draw(t, "aliasName"))
					items = append(items, ds.Name+" AS "+a)
					outName[ds.Name] = a
					aliased = true
				} else {
					items = append(items, ds.Name)
					outName[ds.Name] = ds.Name
				}
			}
			withEpoch := rapid.Bool().Draw(t, "selectEpoch")
			if withEpoch {
				items = append([]string{"Epoch"}, items...)
			}
			// optional WHERE: 0-2 conditions from C19's grammar (Epoch or value column, every operator),
			// so that LIMIT is exercised after range bounds, equalities and value predicates alike
			var keep []int
			where := ""
			var conds []sqlCond
			for i, nc := 0, rapid.IntRange(0, 2).Draw(t, "nconds"); i < nc; i++ {
				conds = append(conds, genCond(t, sc, base))
			}
			if len(conds) > 0 {
				var texts []string
				for _, c := range conds {
					texts = append(texts, c.text)
				}
				where = " WHERE " + strings.Join(texts, " AND ")
			}
			for j := 0; j < base.Len(); j++ {
				ok := true
				for _, c := range conds {
					var cv interface{}
					if c.col != "Epoch" {
						for ci, n := range base.Names {
							if n == c.col {
								cv = elemCol(base.Cols[ci], j)
							}
						}
					}
					if !c.eval(rowTimeNs(base, j), cv) {
						ok = false
					}
				}
				if ok {
					keep = append(keep, j)
				}
			}
			limit := rapid.SampledFrom([]int{0, 1, 2, len(keep) - 1, len(keep), len(keep) + 1}).Draw(t, "limit")
			lim := ""
			if limit >= 1 {
				lim = fmt.Sprintf(" LIMIT %d", limit)
				if limit < len(keep) {
					keep = keep[:limit]
				}
			}
			stmt := fmt.Sprintf("SELECT %s FROM `%s`%s%s;", strings.Join(items, ", "), key, where, lim)
			got, _, err := runSQL(sc.in, stmt)
			if err != nil {
				t.Fatalf("%s\n -> %v", stmt, err)
			}
			want := subRows(base, keep)
			gotLen := got.Len()
			if !withEpoch && len(got.Cols) > 0 {
				// without Epoch in the select list the result has no time column: count a value column
				gotLen = len(hx.ColBytes(got.Cols[0])) / hx.TypeSize(typeOfCol(got.Cols[0]))
			}
			if gotLen != want.Len() {
				t.Fatalf("%s\n -> %d rows, want %d (stored %d)", stmt, gotLen, want.Len(), base.Len())
			}
			if want.Len() == 0 {
				// an empty result carries no values; which column names an empty relation shows
				// (the scan's or the select list's) is not part of the property
				rec.Case("", "kind:select", "empty-result")
				continue
			}
			for _, ds := range sel {
				g := colOf(got, outName[ds.Name])
				if g == nil {
					t.Fatalf("%s\n -> no column %q in the output (columns %v)", stmt, outName[ds.Name], got.Names)
				}
				w := colOf(want, ds.Name)
				if hx.GoTypeOf(g) != hx.GoTypeOf(w) || string(hx.ColBytes(g)) != string(hx.ColBytes(w)) {
					t.Fatalf("%s\n -> column %q does not carry the values of %s", stmt, outName[ds.Name], ds.Name)
				}
			}
			allowed := map[string]bool{"Epoch": true, "Nanoseconds": true}
			for _, ds := range sel {
				allowed[outName[ds.Name]] = true
			}
			for _, n := range got.Names {
				if !allowed[n] {
					t.Fatalf("%s\n -> output has column %q which is not in the select list", stmt, n)
				}
			}
			if withEpoch && got.Len() > 0 {
				for i := range got.Epoch {
					if got.Epoch[i] != want.Epoch[i] {
						t.Fatalf("%s\n -> row %d Epoch %d, want %d", stmt, i, got.Epoch[i], want.Epoch[i])
					}
				}
			}
			nt := ""
			if aliased && limit >= 1 && limit < base.Len() {
				nt = fmt.Sprint(stmt, hx.Hash(fmt.Sprint(base.Epoch, base.Cols)))
				rec.Sample(map[string]interface{}{"statement": stmt, "rows_stored": base.Len(), "rows_returned": got.Len()})
			}
			rec.Case(nt, "kind:select", fmt.Sprintf("aliased=%v", aliased), fmt.Sprintf("limit=%v", limit >= 1))
		}
		// ---- INSERT INTO t SELECT * FROM s [WHERE Epoch range], t's timeframe equal or coarser
		coarser := map[string][]string{"1Min": {"1Min", "5Min", "1H"}, "5Min": {"5Min", "1H", "1D"}, "1H": {"1H", "4H", "1D"}, "1D": {"1D"}}
		ttf := rapid.SampledFrom(coarser[sc.b.TF]).Draw(t, "targetTF")
		tb := &hx.Bucket{Sym: "T", TF: ttf, Group: "G", Variable: variable, Schema: sc.b.Schema}
		if err := sc.in.Create(tb); err != nil {
			t.Fatalf("create target: %v", err)
		}
		var keep []int
		where := ""
		if rapid.Bool().Draw(t, "insertWhere") {
			i := rapid.IntRange(0, base.Len()-1).Draw(t, "fromRow")
			j := rapid.IntRange(i, base.Len()-1).Draw(t, "toRow")
			where = fmt.Sprintf(" WHERE Epoch >= %d AND Epoch <= %d", rowTimeNs(base, i), rowTimeNs(base, j))
			for x := 0; x < base.Len(); x++ {
				if rowTimeNs(base, x) >= rowTimeNs(base, i) && rowTimeNs(base, x) <= rowTimeNs(base, j) {
					keep = append(keep, x)
				}
			}
		} else {
			for x := 0; x < base.Len(); x++ {
				keep = append(keep, x)
			}
		}
		stmt := fmt.Sprintf("INSERT INTO `%s` SELECT * FROM `%s`%s;", tb.Key(), key, where)
		if _, _, err := runSQL(sc.in, stmt); err != nil {
			t.Fatalf("%s\n -> %v", stmt, err)
		}
		tgot, err := sc.in.QueryAll(tb)
		if err != nil {
			t.Fatalf("query target: %v", err)
		}
		sel := subRows(base, keep)
		collapsed := false
		if variable {
			// records keep their times, up to the target bucket's timestamp resolution (they are
			// encoded once more into the target's tick grid)
			var wantRecs []hx.VRec
			for i := 0; i < sel.Len(); i++ {
				wantRecs = append(wantRecs, hx.VRec{TimeNs: rowTimeNs(sel, i), Row: hx.RowBytes(sel, i)})
			}
			skip := func(s int64) bool {
				if ttf == "1D" && jan1Slot(s) && hx.KFOpen("KF-08a") {
					rec.Exclude("KF-08a")
					return true
				}
				return false
			}
			if err := hx.CheckVar(tb, wantRecs, tgot, skip); err != nil {
				t.Fatalf("%s\n -> target bucket differs from the selected rows: %v", stmt, err)
			}
		} else {
			type slotRow struct {
				slot int64
				row  []byte
			}
			last := map[int64][]byte{}
			for i := 0; i < sel.Len(); i++ {
				s := hx.SlotStart(sel.Epoch[i], hx.TFDuration(ttf))
				if _, ok := last[s]; ok {
					collapsed = true
				}
				last[s] = hx.RowBytes(sel, i)
			}
			var slots []int64
			for s := range last {
				if ttf == "1D" && jan1Slot(s) && hx.KFOpen("KF-08a") {
					rec.Exclude("KF-08a")
					continue
				}
				slots = append(slots, s)
			}
			sort.Slice(slots, func(i, j int) bool { return slots[i] < slots[j] })
			if tgot.Len() != len(slots) {
				t.Fatalf("%s\n -> target bucket (%s) has %d rows, the selected rows fall into %d intervals", stmt, ttf, tgot.Len(), len(slots))
			}
			for i, s := range slots {
				if tgot.Epoch[i] != s || string(hx.RowBytes(tgot, i)) != string(last[s]) {
					t.Fatalf("%s\n -> target row %d: Epoch %d values %x, want interval %d values %x", stmt, i, tgot.Epoch[i], hx.RowBytes(tgot, i), s, last[s])
				}
			}
		}
		again, _, err := runSQL(sc.in, fmt.Sprintf("SELECT * FROM `%s`;", key))
		if err != nil {
			t.Fatalf("SELECT * from the source after INSERT: %v", err)
		}
		if err := sameRows(again, base); err != nil {
			t.Fatalf("%s\n -> the source bucket changed: %v", stmt, err)
		}
		nt := ""
		if collapsed || (variable && len(keep) < base.Len()) {
			nt = fmt.Sprint(stmt, hx.Hash(fmt.Sprint(base.Epoch, base.Cols)))
			rec.Sample(map[string]interface{}{"statement": stmt, "source_rows": base.Len(), "selected": len(keep), "target_rows": tgot.Len(), "target_tf": ttf})
		}
		rec.Case(nt, "kind:insert", "targetTF:"+ttf)
	})
	rec.Flush()
}

func typeOfCol(c interface{}) io.EnumElementType {
	switch c.(type) {
	case []int32:
		return io.INT32
	case []int64:
		return io.INT64
	case []float32:
		return io.FLOAT32
	case []float64:
		return io.FLOAT64
	}
	return io.INT64
}
