package props

import (
	"fmt"
	"testing"

	"pgregory.net/rapid"

	"verifharness/hx"
)

// C11 Time-range queries return exactly the rows in range (metamorphic: the
// ranged query against a filter of the server's own all-time result).
func TestC11(t *testing.T) {
	rec := hx.R("C11")
	rapid.Check(t, func(t *rapid.T) {
		variable := rapid.Bool().Draw(t, "variable")
		sc := buildStore(t, rec, storeOpts{variable: variable, types: hx.NumericTypes})
		defer sc.close()
		cands := boundCandidates(sc)
		nq := rapid.IntRange(4, 12).Draw(t, "nqueries")
		for q := 0; q < nq; q++ {
			a := rapid.SampledFrom(cands).Draw(t, "start")
			b := rapid.SampledFrom(cands).Draw(t, "end")
			mode := rapid.IntRange(0, 9).Draw(t, "order")
			if mode != 0 && a > b { // mostly ordered; 10% as drawn (possibly inverted)
				a, b = b, a
			}
			got, err := sc.in.Query(sc.b, nsTime(a), nsTime(b), 0, false, nil)
			inverted := a > b
			if err != nil {
				if inverted {
					rec.Case("", "inverted-range:error")
					continue
				}
				t.Fatalf("query [%d,%d]: %v", a, b, err)
			}
			// the property's definition of "in range" is applied as stated, also when
			// start > end (fixed: the interval containing start may begin at or before end)
			var idx []int
			for i := 0; i < sc.all.Len(); i++ {
				if inRange(sc, i, a, b) {
					idx = append(idx, i)
				}
			}
			want := subRows(sc.all, idx)
			if err := sameRows(got, want); err != nil {
				t.Fatalf("%s bucket %s, range [%d, %d] ns ([%s, %s]): %v", map[bool]string{true: "variable", false: "fixed"}[variable],
					sc.b.TF, a, b, nsTime(a).Format("2006-01-02T15:04:05.000000000"), nsTime(b).Format("2006-01-02T15:04:05.000000000"), err)
			}
			// non-trivial: a bound strictly inside a populated interval, result neither empty nor everything
			nt := ""
			cls := []string{fmt.Sprintf("variable=%v", variable), "tf:" + sc.b.TF}
			if inverted {
				cls = append(cls, "inverted-range:empty")
			}
			if len(idx) > 0 && len(idx) < sc.all.Len() {
				cls = append(cls, "partial-result")
				tfNs := sc.b.TFDur().Nanoseconds()
				inside := false
				for i := 0; i < sc.all.Len(); i++ {
					s := hx.SlotStart(sc.all.Epoch[i], sc.b.TFDur()) * 1e9
					if (a > s && a < s+tfNs) || (b > s && b < s+tfNs) {
						inside = true
					}
				}
				if inside {
					nt = fmt.Sprint(variable, sc.b.TF, a, b, hx.Hash(sc.all.Epoch, sc.all.Nanos))
					cls = append(cls, "bound-inside-populated-interval")
					rec.Sample(map[string]interface{}{"variable": variable, "tf": sc.b.TF, "rows_stored": sc.all.Len(),
						"start_ns": a, "end_ns": b, "rows_in_range": len(idx)})
				}
			}
			if len(idx) == 0 {
				cls = append(cls, "empty-result")
			}
			rec.Case(nt, cls...)
		}
	})
	rec.Flush()
}
