package props

import (
	"os"
	"strconv"
	"testing"

	"verifharness/hx"
)

func TestMain(m *testing.M) {
	code := m.Run()
	hx.FlushAll()
	os.Exit(code)
}

func envInt(k string, d int) int {
	if v, err := strconv.Atoi(os.Getenv(k)); err == nil {
		return v
	}
	return d
}

func thorough() bool { return os.Getenv("VERIF_TIER") == "thorough" }
