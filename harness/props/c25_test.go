package props

import (
	"fmt"
	"os"
	"sync"
	"testing"
	"time"

	"github.com/alpacahq/marketstore/v4/executor"
	"github.com/alpacahq/marketstore/v4/replication"
	"github.com/alpacahq/marketstore/v4/utils/io"
	"pgregory.net/rapid"

	"verifharness/hx"
)

// C25 Replicas converge to the master: the master's transaction groups (captured from
// its ReplicationSender) are applied to a second instance through the production
// replayer (replication.NewReplayer(executor.ParseTGData, writer.WriteCSM, root)).
func TestC25(t *testing.T) {
	rec := hx.R("C25")
	rapid.Check(t, func(t *rapid.T) {
		mroot, rroot := hx.ScratchDir("c25m"), hx.ScratchDir("c25r")
		defer os.RemoveAll(mroot)
		defer os.RemoveAll(rroot)
		send := &recSender{}
		// one case in three: 2-3 concurrent writers on a master with the background WAL writer, so that
		// a flushed transaction group carries several requests ("any grouping of writes")
		nwriters := 1
		mopts := hx.InstOpts{Sender: send}
		if rapid.IntRange(0, 2).Draw(t, "grouped") == 0 {
			nwriters = rapid.IntRange(2, 3).Draw(t, "writers")
			mopts.WALRefresh = time.Duration(rapid.IntRange(1, 4).Draw(t, "walMs")) * time.Millisecond
			mopts.PrimaryRefresh = time.Duration(rapid.IntRange(4, 30).Draw(t, "ckptMs")) * time.Millisecond
			mopts.RotateInterval = 2
		}
		master := hx.NewInst(mroot, mopts)
		masterClosed := false
		defer func() {
			if !masterClosed {
				master.Close()
			}
		}()
		type prepared struct {
			csm    io.ColumnSeriesMap
			anyVar bool
		}
		var reqs []prepared
		// (the flag that tells writers whether a background WAL writer runs is process-wide:
		// master and replica live in one process here, so both run in the same mode)
		ropts := hx.InstOpts{}
		if nwriters > 1 {
			ropts = hx.InstOpts{WALRefresh: 2 * time.Millisecond, PrimaryRefresh: 20 * time.Millisecond, RotateInterval: 2}
		}
		replica := hx.NewInst(rroot, ropts)
		defer replica.Close()
		replayer := replication.NewReplayer(executor.ParseTGData, replica.W.WriteCSM, rroot)

		nb := rapid.IntRange(1, 4).Draw(t, "nbuckets")
		var bs []*hx.Bucket
		var pools []*hx.TimePool
		hasVarCoarse := false
		for i := 0; i < nb; i++ {
			tf := genCoarseTF(t)
			variable := rapid.Bool().Draw(t, "variable")
			b := &hx.Bucket{Sym: fmt.Sprintf("R%d", i), TF: tf, Group: "G", Variable: variable, Schema: hx.GenSchema(t, 3, hx.WireTypes)}
			if err := master.Create(b); err != nil {
				t.Fatalf("create: %v", err)
			}
			bs = append(bs, b)
			pools = append(pools, hx.NewTimePool(t, hx.TFDuration(tf), rapid.IntRange(1, 2).Draw(t, "nyears")))
			if variable && tf != "1Sec" {
				hasVarCoarse = true
			}
		}
		nreq := rapid.IntRange(1, 6*nwriters).Draw(t, "nrequests")
		mixedTG := false
		for q := 0; q < nreq; q++ {
			// one request names 1-2 buckets; with two buckets they may be of different record type
			k := rapid.IntRange(1, 2).Draw(t, "bucketsInRequest")
			csm := io.NewColumnSeriesMap()
			anyVar := false
			types := map[bool]bool{}
			used := map[int]bool{}
			for j := 0; j < k; j++ {
				bi := rapid.IntRange(0, nb-1).Draw(t, "bucket")
				if used[bi] {
					continue
				}
				used[bi] = true
				b := bs[bi]
				n := rapid.IntRange(1, 12).Draw(t, "nrows")
				var rows *hx.Rows
				if b.Variable {
					rows = genVarRows(t, b, pools[bi], n, "random", rec)
					anyVar = true
				} else {
					rows = genRows(t, b, pools[bi], n, rec)
				}
				types[b.Variable] = true
				csm.AddColumnSeries(*b.TBK(), rows.ToCS())
			}
			if len(types) == 2 {
				mixedTG = true
			}
			reqs = append(reqs, prepared{csm, anyVar})
		}
		ntg, multiReqTG := 0, false
		apply := func() {
			for _, tg := range send.take() {
				ntg++
				if err := replayer.Replay(tg); err != nil {
					t.Fatalf("replica cannot apply a transaction group: %v", err)
				}
			}
		}
		if nwriters == 1 {
			for _, r := range reqs {
				if err := master.W.WriteCSM(r.csm, r.anyVar); err != nil {
					t.Fatalf("master write: %v", err)
				}
				apply()
			}
		} else {
			var wg sync.WaitGroup
			errs := make([]error, nwriters)
			for w := 0; w < nwriters; w++ {
				wg.Add(1)
				go func(w int) {
					defer wg.Done()
					for i := w; i < len(reqs); i += nwriters {
						if err := master.W.WriteCSM(reqs[i].csm, reqs[i].anyVar); err != nil {
							errs[w] = err
							return
						}
					}
				}(w)
			}
			wg.Wait()
			for _, err := range errs {
				if err != nil {
					t.Fatalf("master write (concurrent): %v", err)
				}
			}
			apply()
			multiReqTG = ntg < len(reqs)
		}
		for _, b := range bs {
			m, err := master.QueryAll(b)
			if err != nil {
				t.Fatalf("master query %s: %v", b.Key(), err)
			}
			r, err := replica.QueryAll(b)
			if err != nil {
				t.Fatalf("replica query %s: %v", b.Key(), err)
			}
			if b.Variable {
				var want []hx.VRec
				for i := 0; i < m.Len(); i++ {
					want = append(want, hx.VRec{TimeNs: rowTimeNs(m, i), Row: hx.RowBytes(m, i)})
				}
				if err := hx.CheckVar(b, want, r, nil); err != nil {
					t.Fatalf("bucket %s (%s, variable): replica differs from master: %v", b.Key(), b.TF, err)
				}
			} else if err := sameRows(r, m); err != nil {
				t.Fatalf("bucket %s (%s, fixed): replica differs from master: %v", b.Key(), b.TF, err)
			}
			// a ranged query as well
			if m.Len() >= 2 {
				a, z := rowTimeNs(m, m.Len()/3), rowTimeNs(m, m.Len()-1)
				mr, err1 := master.Query(b, nsTime(a), nsTime(z), 0, false, nil)
				ra := a
				if b.Variable {
					ra = a - hx.ResolutionNs(hx.TFDuration(b.TF))
				}
				rr, err2 := replica.Query(b, nsTime(ra), nsTime(z), 0, false, nil)
				if err1 != nil || err2 != nil {
					t.Fatalf("ranged query: %v / %v", err1, err2)
				}
				if !b.Variable {
					if err := sameRows(rr, mr); err != nil {
						t.Fatalf("bucket %s ranged query: replica differs from master: %v", b.Key(), err)
					}
				}
			}
		}
		nt := ""
		if hasVarCoarse || mixedTG {
			nt = fmt.Sprint(hx.Hash(fmt.Sprint(bs)), nreq, mixedTG, hx.Hash(fmt.Sprint(pools)))
			rec.Sample(map[string]interface{}{"buckets": fmt.Sprint(bs), "requests": nreq, "mixed_record_types_in_one_request": mixedTG})
		}
		cls := []string{fmt.Sprintf("buckets=%d", nb)}
		if mixedTG {
			cls = append(cls, "TG-mixing-fixed-and-variable")
		}
		cls = append(cls, fmt.Sprintf("writers=%d", nwriters))
		if multiReqTG {
			cls = append(cls, "TG-carrying-several-requests")
		}
		rec.Case(nt, cls...)
	})
	rec.Flush()
}
