module verifharness

go 1.23

toolchain go1.23.5

require (
	github.com/alpacahq/marketstore/v4 v4.0.0
	pgregory.net/rapid v1.3.0
)

require (
	github.com/pkg/errors v0.9.1 // indirect
	go.uber.org/atomic v1.6.0 // indirect
	go.uber.org/multierr v1.5.0 // indirect
	go.uber.org/zap v1.15.0 // indirect
	gopkg.in/yaml.v2 v2.4.0 // indirect
)

replace github.com/alpacahq/marketstore/v4 => /repo
