package hx

import (
	"fmt"
	"os"
	"path/filepath"
	"sync/atomic"
	"time"

	"github.com/alpacahq/marketstore/v4/catalog"
	"github.com/alpacahq/marketstore/v4/executor"
	"github.com/alpacahq/marketstore/v4/frontend"
	"github.com/alpacahq/marketstore/v4/plugins/trigger"
	"github.com/alpacahq/marketstore/v4/utils"
	"github.com/alpacahq/marketstore/v4/utils/io"
	"github.com/alpacahq/marketstore/v4/utils/log"
	"github.com/alpacahq/marketstore/v4/verifhooks"
	"go.uber.org/zap"
	"go.uber.org/zap/zapcore"
)

func init() {
	log.SetLevel(log.FATAL)
	if os.Getenv("VERIF_LOG") == "error" {
		log.SetLevel(log.ERROR) // debugging aid: the server's error log goes to stdout
	}
	atomic.StoreUint32(&frontend.Queryable, 1)
}

// Inst is one in-process server instance built by the production DI container.
type Inst struct {
	Root string
	Cfg  *utils.MktsConfig
	C    *verifhooks.Container
	Cat  *catalog.Directory
	WAL  *executor.WALFileType
	W    frontend.Writer
	QS   *frontend.QueryService
	DS   *frontend.DataService
	bg   bool
}

type InstOpts struct {
	// Background: production mode (BackgroundSync=true): SyncWAL goroutine with
	// the production timers (500ms / 5min) started by the container itself.
	Background bool
	// ShortTimers: start SyncWAL ourselves (same call the container makes) with
	// these intervals instead. Implies a background writer.
	WALRefresh, PrimaryRefresh time.Duration
	RotateInterval             int
	Triggers                   []*trigger.Matcher
	Sender                     executor.ReplicationSender
	Timezone                   *time.Location
}

var scratchSeq int64

// ScratchDir returns a fresh empty directory (tmpfs when available).
func ScratchDir(tag string) string {
	base := os.Getenv("VERIF_SCRATCH")
	if base == "" {
		base = "/dev/shm"
		if st, err := os.Stat(base); err != nil || !st.IsDir() {
			base = os.TempDir()
		}
		base = filepath.Join(base, fmt.Sprintf("verif-%d", os.Getpid()))
	}
	d := filepath.Join(base, fmt.Sprintf("%s-%d", tag, atomic.AddInt64(&scratchSeq, 1)))
	os.RemoveAll(d)
	if err := os.MkdirAll(d, 0o770); err != nil {
		panic(err)
	}
	return d
}

// NewInst starts an instance on root (created if missing) through the same
// container calls cmd/start makes: GetCatalogDir, then GetInitWALFile (which
// replays and removes left-over WAL files).
func NewInst(root string, o InstOpts) *Inst {
	cfg := utils.NewDefaultConfig(root)
	cfg.BackgroundSync = o.Background && o.WALRefresh == 0
	if o.RotateInterval > 0 {
		cfg.WALRotateInterval = o.RotateInterval
	}
	if o.Timezone != nil {
		cfg.Timezone = o.Timezone
	}
	utils.InstanceConfig = *cfg
	c := verifhooks.NewContainer(cfg)
	if o.Triggers != nil {
		c.InjectTriggerMatchers(o.Triggers)
	}
	c.GetStartTriggerPluginDispatcher()
	in := &Inst{Root: root, Cfg: cfg, C: c}
	in.Cat = c.GetCatalogDir()
	in.WAL = c.GetInitWALFile()
	if o.Sender != nil {
		in.WAL.ReplicationSender = o.Sender
	}
	executor.NewInstanceSetup(in.Cat, in.WAL)
	if o.WALRefresh > 0 {
		ri := o.RotateInterval
		if ri <= 0 {
			ri = 5
		}
		go in.WAL.SyncWAL(o.WALRefresh, o.PrimaryRefresh, ri)
		in.WAL.IncrementWaitGroup()
		in.bg = true
		waitWALWriter()
	} else if cfg.BackgroundSync {
		in.bg = true
		waitWALWriter()
	}
	in.W = c.GetWriter()
	in.QS = c.GetHTTPService()
	in.DS = frontend.NewDataService(c.GetAbsRootDir(), in.Cat, c.GetAggRunner(), in.W, in.QS)
	return in
}

// waitWALWriter: SyncWAL announces itself at its first statement; a write issued before that
// would flush inline, concurrently with the loop (the server proper starts listening later).
func waitWALWriter() {
	for i := 0; i < 5000 && !executor.VerifHaveWALWriter(); i++ {
		time.Sleep(time.Millisecond)
	}
}

// Close shuts the instance down gracefully (final flush + checkpoint when a
// background writer runs) and releases the dispatcher goroutine.
func (in *Inst) Close() {
	if in.WAL != nil {
		in.WAL.Shutdown()
		in.WAL.FilePtr.Close()
	}
}

// Bucket describes one time bucket.
type Bucket struct {
	Sym, TF, Group string
	Schema         []io.DataShape // data columns, without Epoch / Nanoseconds
	Variable       bool
}

func (b *Bucket) Key() string { return b.Sym + "/" + b.TF + "/" + b.Group }
func (b *Bucket) TBK() *io.TimeBucketKey {
	return io.NewTimeBucketKey(b.Key())
}

func (b *Bucket) TFDur() time.Duration {
	tf := utils.TimeframeFromString(b.TF)
	return tf.Duration
}

// Rows is a write request or query result for one bucket in neutral form.
type Rows struct {
	Epoch []int64
	Nanos []int32       // variable-length only (nil otherwise)
	Cols  []interface{} // typed slices, in Names order
	Names []string
}

func (r *Rows) Len() int { return len(r.Epoch) }

// ToCS builds the ColumnSeries a client would send.
func (r *Rows) ToCS() *io.ColumnSeries {
	cs := io.NewColumnSeries()
	cs.AddColumn("Epoch", r.Epoch)
	for i, n := range r.Names {
		cs.AddColumn(n, r.Cols[i])
	}
	if r.Nanos != nil {
		cs.AddColumn("Nanoseconds", r.Nanos)
	}
	return cs
}

// FromCS converts a query result into neutral form (Epoch, Nanoseconds split off).
func FromCS(cs *io.ColumnSeries) (*Rows, error) {
	if cs == nil {
		return &Rows{}, nil
	}
	out := &Rows{}
	for _, n := range cs.GetColumnNames() {
		c := cs.GetColumn(n)
		switch n {
		case "Epoch":
			e, ok := c.([]int64)
			if !ok {
				return nil, fmt.Errorf("Epoch column has type %T", c)
			}
			out.Epoch = e
		case "Nanoseconds":
			ns, ok := c.([]int32)
			if !ok {
				return nil, fmt.Errorf("Nanoseconds column has type %T", c)
			}
			out.Nanos = ns
		default:
			out.Names = append(out.Names, n)
			out.Cols = append(out.Cols, c)
		}
	}
	return out, nil
}

// WriteVia issues one write request for bucket b. via: 0 = DataService.Write
// (the request API incl. the wire dataset conversion), 1 = Writer.WriteCSM.
func (in *Inst) WriteVia(b *Bucket, r *Rows, via int) error {
	cs := r.ToCS()
	if via == 1 {
		csm := io.NewColumnSeriesMap()
		csm.AddColumnSeries(*b.TBK(), cs)
		return in.W.WriteCSM(csm, b.Variable)
	}
	nds, err := io.NewNumpyDataset(cs)
	if err != nil {
		return err
	}
	nmds, err := io.NewNumpyMultiDataset(nds, *b.TBK())
	if err != nil {
		return err
	}
	req := &frontend.MultiWriteRequest{Requests: []frontend.WriteRequest{{Data: nmds, IsVariableLength: b.Variable}}}
	resp := &frontend.MultiServerResponse{}
	if err := in.DS.Write(nil, req, resp); err != nil {
		return err
	}
	for _, r := range resp.Responses {
		if r.Error != "" {
			return fmt.Errorf("%s", r.Error)
		}
	}
	return nil
}

// Create creates bucket b through DataService.Create.
func (in *Inst) Create(b *Bucket) error {
	req := frontend.CreateRequest{Key: b.Key() + ":Symbol/Timeframe/AttributeGroup", IsVariableLength: b.Variable}
	for _, ds := range b.Schema {
		req.ColumnNames = append(req.ColumnNames, ds.Name)
		req.ColumnTypes = append(req.ColumnTypes, TypeStr[ds.Type])
	}
	resp := &frontend.MultiServerResponse{}
	if err := in.DS.Create(nil, &frontend.MultiCreateRequest{Requests: []frontend.CreateRequest{req}}, resp); err != nil {
		return err
	}
	for _, r := range resp.Responses {
		if r.Error != "" {
			return fmt.Errorf("%s", r.Error)
		}
	}
	return nil
}

// WideStart/WideEnd: explicit "all time" range (time.Unix(1<<62,0) returns nothing).
var (
	WideStart = time.Date(1970, 1, 1, 0, 0, 0, 0, time.UTC)
	WideEnd   = time.Date(2100, 1, 1, 0, 0, 0, 0, time.UTC)
)

// Query runs QueryService.ExecuteQuery for one bucket. A "no files returned"
// outcome is reported as zero rows.
func (in *Inst) Query(b *Bucket, start, end time.Time, limit int, fromStart bool, cols []string) (*Rows, error) {
	csm, err := in.QS.ExecuteQuery(b.TBK(), start, end, limit, fromStart, cols)
	if err != nil {
		if err.Error() == "no files returned from query parse" {
			return &Rows{}, nil
		}
		return nil, err
	}
	for k, cs := range csm {
		if k.GetItemKey() == b.Key() {
			return FromCS(cs)
		}
	}
	return &Rows{}, nil
}

func (in *Inst) QueryAll(b *Bucket) (*Rows, error) {
	return in.Query(b, WideStart, WideEnd, 0, false, nil)
}

// QueryAPI runs DataService.Query (request API) for a destination string.
func (in *Inst) QueryAPI(req frontend.QueryRequest) (map[string]*Rows, error) {
	resp := &frontend.MultiQueryResponse{}
	if err := in.DS.Query(nil, &frontend.MultiQueryRequest{Requests: []frontend.QueryRequest{req}}, resp); err != nil {
		return nil, err
	}
	out := map[string]*Rows{}
	for _, r := range resp.Responses {
		if r.Result == nil {
			continue
		}
		for tbkStr, start := range r.Result.StartIndex {
			n := r.Result.Lengths[tbkStr]
			var rows *Rows
			if n == 0 {
				rows = &Rows{}
			} else {
				cs, err := r.Result.ToColumnSeries(start, n)
				if err != nil {
					return nil, err
				}
				rows, err = FromCS(cs)
				if err != nil {
					return nil, err
				}
			}
			out[io.NewTimeBucketKeyFromString(tbkStr).GetItemKey()] = rows
		}
	}
	return out, nil
}

// FatalAsPanic makes the server's log.Fatal (zap global logger) panic instead of
// calling os.Exit, so that a check can attribute the termination to the
// goroutine and operation that caused it (concurrent checks). zap writes the
// entry to its cores before it exits; the core installed here panics on a
// fatal entry with "log.Fatal: <text>".
func FatalAsPanic() {
	zap.ReplaceGlobals(zap.New(fatalCore{}))
}

type fatalCore struct{}

func (fatalCore) Enabled(l zapcore.Level) bool        { return l >= zapcore.FatalLevel }
func (c fatalCore) With([]zapcore.Field) zapcore.Core { return c }
func (c fatalCore) Check(e zapcore.Entry, ce *zapcore.CheckedEntry) *zapcore.CheckedEntry {
	if c.Enabled(e.Level) {
		return ce.AddCore(e, c)
	}
	return ce
}
func (fatalCore) Write(e zapcore.Entry, _ []zapcore.Field) error {
	if e.Level >= zapcore.FatalLevel {
		panic("log.Fatal: " + e.Message)
	}
	return nil
}
func (fatalCore) Sync() error { return nil }
