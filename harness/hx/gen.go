package hx

import (
	"encoding/binary"
	"fmt"
	"math"

	"github.com/alpacahq/marketstore/v4/utils/io"
	"pgregory.net/rapid"
)

// WireTypes are the element types the request API accepts (utils/io/numpy.go).
var WireTypes = []io.EnumElementType{
	io.BYTE, io.INT16, io.INT32, io.INT64, io.UINT8, io.UINT16, io.UINT32, io.UINT64,
	io.FLOAT32, io.FLOAT64, io.STRING16,
}

// NumericTypes = WireTypes without STRING16.
var NumericTypes = WireTypes[:10]

var TypeStr = map[io.EnumElementType]string{
	io.BYTE: "i1", io.INT16: "i2", io.INT32: "i4", io.INT64: "i8", io.UINT8: "u1", io.UINT16: "u2",
	io.UINT32: "u4", io.UINT64: "u8", io.FLOAT32: "f4", io.FLOAT64: "f8", io.STRING16: "U16",
}

func TypeSize(t io.EnumElementType) int {
	switch t {
	case io.BYTE, io.UINT8, io.BOOL:
		return 1
	case io.INT16, io.UINT16:
		return 2
	case io.INT32, io.UINT32, io.FLOAT32:
		return 4
	case io.INT64, io.UINT64, io.FLOAT64:
		return 8
	case io.STRING16:
		return 64
	}
	panic(fmt.Sprint("size of ", t))
}

// interesting 64-bit patterns; truncated to the width of the column type.
var edgeBits = []uint64{0, 1, 0x7f, 0x80, 0xff, 0x7fff, 0x8000, 0xffff, 0x7fffffff, 0x80000000, 0xffffffff,
	0x7fffffffffffffff, 0x8000000000000000, 0xffffffffffffffff,
	math.Float64bits(1), math.Float64bits(-1), math.Float64bits(math.Inf(1)), math.Float64bits(math.SmallestNonzeroFloat64),
	uint64(math.Float32bits(1)), uint64(math.Float32bits(-1)), uint64(math.Float32bits(float32(math.Inf(-1)))),
	uint64(math.Float32bits(math.MaxFloat32)), math.Float64bits(math.MaxFloat64), 0x8000000000000000 >> 32}

// EdgeBits exposes the interesting bit patterns (for stratified sweeps).
func EdgeBits() []uint64 { return append([]uint64{}, edgeBits...) }

func genBits() *rapid.Generator[uint64] {
	return rapid.OneOf(rapid.Uint64(), rapid.SampledFrom(edgeBits), rapid.Uint64Range(0, 300))
}

// GenColumnBits draws a column of n elements of typ as raw bit patterns (NaNs
// included): for round trips compared bit for bit.
func GenColumnBits(t *rapid.T, typ io.EnumElementType, n int, label string) interface{} {
	if typ == io.STRING16 {
		out := make([][16]rune, n)
		for i := range out {
			bits := rapid.SliceOfN(rapid.Int32(), 16, 16).Draw(t, label)
			for j := range bits {
				out[i][j] = rune(bits[j])
			}
		}
		return out
	}
	bits := rapid.SliceOfN(genBits(), n, n).Draw(t, label)
	return ColumnFromBits(typ, bits)
}

func ColumnFromBits(typ io.EnumElementType, bits []uint64) interface{} {
	n := len(bits)
	switch typ {
	case io.BYTE:
		o := make([]int8, n)
		for i, b := range bits {
			o[i] = int8(b)
		}
		return o
	case io.INT16:
		o := make([]int16, n)
		for i, b := range bits {
			o[i] = int16(b)
		}
		return o
	case io.INT32:
		o := make([]int32, n)
		for i, b := range bits {
			o[i] = int32(b)
		}
		return o
	case io.INT64:
		o := make([]int64, n)
		for i, b := range bits {
			o[i] = int64(b)
		}
		return o
	case io.UINT8:
		o := make([]uint8, n)
		for i, b := range bits {
			o[i] = uint8(b)
		}
		return o
	case io.UINT16:
		o := make([]uint16, n)
		for i, b := range bits {
			o[i] = uint16(b)
		}
		return o
	case io.UINT32:
		o := make([]uint32, n)
		for i, b := range bits {
			o[i] = uint32(b)
		}
		return o
	case io.UINT64:
		o := make([]uint64, n)
		copy(o, bits)
		return o
	case io.FLOAT32:
		o := make([]float32, n)
		for i, b := range bits {
			o[i] = math.Float32frombits(uint32(b))
		}
		return o
	case io.FLOAT64:
		o := make([]float64, n)
		for i, b := range bits {
			o[i] = math.Float64frombits(b)
		}
		return o
	}
	panic(fmt.Sprint("ColumnFromBits ", typ))
}

// ColBytes is the harness's own little-endian encoding of a typed column
// (independent of marketstore's unsafe SwapSliceData).
func ColBytes(v interface{}) []byte {
	var out []byte
	switch c := v.(type) {
	case []int8:
		for _, x := range c {
			out = append(out, byte(x))
		}
	case []uint8:
		out = append(out, c...)
	case []bool:
		for _, x := range c {
			if x {
				out = append(out, 1)
			} else {
				out = append(out, 0)
			}
		}
	case []int16:
		for _, x := range c {
			out = binary.LittleEndian.AppendUint16(out, uint16(x))
		}
	case []uint16:
		for _, x := range c {
			out = binary.LittleEndian.AppendUint16(out, x)
		}
	case []int32:
		for _, x := range c {
			out = binary.LittleEndian.AppendUint32(out, uint32(x))
		}
	case []uint32:
		for _, x := range c {
			out = binary.LittleEndian.AppendUint32(out, x)
		}
	case []float32:
		for _, x := range c {
			out = binary.LittleEndian.AppendUint32(out, math.Float32bits(x))
		}
	case []int64:
		for _, x := range c {
			out = binary.LittleEndian.AppendUint64(out, uint64(x))
		}
	case []uint64:
		for _, x := range c {
			out = binary.LittleEndian.AppendUint64(out, x)
		}
	case []float64:
		for _, x := range c {
			out = binary.LittleEndian.AppendUint64(out, math.Float64bits(x))
		}
	case [][16]rune:
		for _, s := range c {
			for _, r := range s {
				out = binary.LittleEndian.AppendUint32(out, uint32(r))
			}
		}
	default:
		panic(fmt.Sprintf("ColBytes: unsupported %T", v))
	}
	return out
}

// GoTypeOf names the Go slice type of a column value ("[]int8", ...).
func GoTypeOf(v interface{}) string { return fmt.Sprintf("%T", v) }

// ExpectedGoType is the Go slice type a column of element type typ must have.
func ExpectedGoType(typ io.EnumElementType) string {
	switch typ {
	case io.BYTE:
		return "[]int8"
	case io.INT16:
		return "[]int16"
	case io.INT32:
		return "[]int32"
	case io.INT64:
		return "[]int64"
	case io.UINT8:
		return "[]uint8"
	case io.UINT16:
		return "[]uint16"
	case io.UINT32:
		return "[]uint32"
	case io.UINT64:
		return "[]uint64"
	case io.FLOAT32:
		return "[]float32"
	case io.FLOAT64:
		return "[]float64"
	case io.STRING16:
		return "[][16]int32"
	}
	return "?"
}

// GenName draws an ordinary column name.
func GenName() *rapid.Generator[string] {
	return rapid.StringMatching(`[A-Za-z][A-Za-z0-9_]{0,11}`)
}

// GenSchema draws 1..maxCols distinct data columns (no Epoch) over types.
func GenSchema(t *rapid.T, maxCols int, types []io.EnumElementType) []io.DataShape {
	n := rapid.IntRange(1, maxCols).Draw(t, "ncols")
	seen := map[string]bool{"Epoch": true, "Nanoseconds": true, "epoch": true, "nanoseconds": true}
	var out []io.DataShape
	for len(out) < n {
		name := GenName().Draw(t, "colname")
		if seen[name] {
			name = fmt.Sprintf("%s_%d", name, len(out))
		}
		if seen[name] {
			continue
		}
		seen[name] = true
		out = append(out, io.DataShape{Name: name, Type: rapid.SampledFrom(types).Draw(t, "coltype")})
	}
	return out
}
