package hx

import (
	"encoding/json"
	"fmt"
	"hash/fnv"
	"os"
	"path/filepath"
	"sort"
	"sync"
)

// Rec collects what one test process explored; run.py merges the fragments of
// all shards into evidence/<id>.json.  Every count is measured here.
type Rec struct {
	mu       sync.Mutex
	Prop     string              `json:"property_id"`
	Evals    int64               `json:"evaluations"`
	NT       map[uint64]struct{} `json:"-"`
	NTList   []uint64            `json:"nontrivial_hashes"`
	NTCount  int64               `json:"nontrivial_count"`
	Classes  map[string]int64    `json:"classes"`
	Samples  []interface{}       `json:"samples"`
	KFSeen   map[string]int64    `json:"kf_seen"`
	KFWhat   map[string]string   `json:"kf_what"`
	Excluded map[string]int64    `json:"excluded_by_finding"`
	Extra    map[string]int64    `json:"extra"`
	maxSamp  int
	path     string
}

var (
	recMu sync.Mutex
	recs  = map[string]*Rec{}
)

// R returns the process-wide recorder of a property.
func R(prop string) *Rec {
	recMu.Lock()
	defer recMu.Unlock()
	if r, ok := recs[prop]; ok {
		return r
	}
	r := &Rec{Prop: prop, NT: map[uint64]struct{}{}, Classes: map[string]int64{},
		KFSeen: map[string]int64{}, KFWhat: map[string]string{}, Excluded: map[string]int64{},
		Extra: map[string]int64{}, maxSamp: 4}
	dir := os.Getenv("VERIF_OUT")
	if dir != "" {
		r.path = filepath.Join(dir, fmt.Sprintf("frag-%s-%d.json", prop, os.Getpid()))
	}
	recs[prop] = r
	return r
}

func Hash(parts ...interface{}) uint64 {
	h := fnv.New64a()
	fmt.Fprint(h, parts...)
	return h.Sum64()
}

// Case counts one generated case. ntKey != "" marks it non-trivial; cases with
// the same key are counted once.
func (r *Rec) Case(ntKey string, classes ...string) {
	r.mu.Lock()
	defer r.mu.Unlock()
	r.Evals++
	if ntKey != "" {
		r.NT[Hash(ntKey)] = struct{}{}
	}
	for _, c := range classes {
		r.Classes[c]++
	}
}

// Evaluations adds n evaluations without a non-trivial key (bulk sweeps).
func (r *Rec) Evaluations(n int64) { r.mu.Lock(); r.Evals += n; r.mu.Unlock() }

func (r *Rec) NonTrivial(key string) {
	r.mu.Lock()
	r.NT[Hash(key)] = struct{}{}
	r.mu.Unlock()
}

// AddNT adds n non-trivial cases that are distinct by construction (disjoint
// enumeration ranges of a sweep), counted numerically instead of by hash.
func (r *Rec) AddNT(n int64) { r.mu.Lock(); r.NTCount += n; r.mu.Unlock() }

func (r *Rec) Class(c string, n int64) { r.mu.Lock(); r.Classes[c] += n; r.mu.Unlock() }
func (r *Rec) Add(k string, n int64)   { r.mu.Lock(); r.Extra[k] += n; r.mu.Unlock() }

// Sample keeps the first few cases verbatim (prefer non-trivial ones: callers
// pass only interesting cases).
func (r *Rec) Sample(v interface{}) {
	r.mu.Lock()
	defer r.mu.Unlock()
	if len(r.Samples) < r.maxSamp {
		r.Samples = append(r.Samples, v)
	}
}

// KF records that an open known finding was observed in this run.
func (r *Rec) KF(id, what string) {
	r.mu.Lock()
	r.KFSeen[id]++
	if _, ok := r.KFWhat[id]; !ok {
		r.KFWhat[id] = what
	}
	r.mu.Unlock()
}

// Exclude counts an observation that lay inside an open finding's region and
// was therefore not compared strictly.
func (r *Rec) Exclude(id string) { r.mu.Lock(); r.Excluded[id]++; r.mu.Unlock() }

func (r *Rec) Flush() {
	r.mu.Lock()
	defer r.mu.Unlock()
	if r.path == "" {
		return
	}
	r.NTList = r.NTList[:0]
	for h := range r.NT {
		r.NTList = append(r.NTList, h)
	}
	sort.Slice(r.NTList, func(i, j int) bool { return r.NTList[i] < r.NTList[j] })
	b, err := json.Marshal(r)
	if err != nil {
		fmt.Fprintln(os.Stderr, "rec flush:", err)
		return
	}
	tmp := r.path + ".tmp"
	if os.WriteFile(tmp, b, 0o644) == nil {
		os.Rename(tmp, r.path)
	}
}

// FlushAll is called from TestMain.
func FlushAll() {
	recMu.Lock()
	l := make([]*Rec, 0, len(recs))
	for _, r := range recs {
		l = append(l, r)
	}
	recMu.Unlock()
	for _, r := range l {
		r.Flush()
	}
}

// ---- known findings -------------------------------------------------------

type kfEntry struct {
	ID     string `json:"id"`
	Status string `json:"status"`
}

var (
	kfOnce sync.Once
	kfOpen = map[string]bool{}
)

// KFOpen reports whether finding id is listed as open in known_findings.json.
// A fixed or unknown id is not open: its cases are compared strictly.
func KFOpen(id string) bool {
	kfOnce.Do(func() {
		p := os.Getenv("VERIF_KF")
		if p == "" {
			p = "/verif/known_findings.json"
		}
		b, err := os.ReadFile(p)
		if err != nil {
			return
		}
		var f struct {
			Findings []kfEntry `json:"findings"`
		}
		if json.Unmarshal(b, &f) != nil {
			return
		}
		for _, e := range f.Findings {
			if e.Status == "open" {
				kfOpen[e.ID] = true
			}
		}
	})
	return kfOpen[id]
}

// SaveReplay writes a readable replay file for a failing case of a
// non-rapid (sweep) check; run.py copies it under /verif/replays/<id>/.
func SaveReplay(prop string, v interface{}) string {
	dir := os.Getenv("VERIF_REPLAY_OUT")
	if dir == "" {
		return ""
	}
	os.MkdirAll(dir, 0o755)
	b, _ := json.MarshalIndent(v, "", " ")
	p := filepath.Join(dir, fmt.Sprintf("%s-%d.json", prop, os.Getpid()))
	if _, err := os.Stat(p); err == nil {
		return p // keep the first
	}
	os.WriteFile(p, b, 0o644)
	return p
}

// LoadReplay reads the replay file named by VERIF_REPLAY into v; false if unset.
func LoadReplay(v interface{}) bool {
	p := os.Getenv("VERIF_REPLAY")
	if p == "" {
		return false
	}
	b, err := os.ReadFile(p)
	if err != nil {
		panic(err)
	}
	if err := json.Unmarshal(b, v); err != nil {
		panic(err)
	}
	return true
}
