// Package hx holds the shared harness code: evidence counters, generators,
// the reference model and the in-process instance builder.
package hx
