package hx

import (
	"time"

	"pgregory.net/rapid"
)

// DiskTimeframes is the on-disk timeframe set (utils.Timeframes).
var DiskTimeframes = []string{"1Sec", "10Sec", "30Sec", "1Min", "5Min", "15Min", "30Min", "1H", "2H", "4H", "1D"}

// GenTF draws a timeframe; the second-level ones (huge sparse year files whose
// full scan is slow) get a lower weight.
func GenTF(t *rapid.T) string {
	switch c := rapid.IntRange(0, 99).Draw(t, "tfclass"); {
	case c < 6:
		return rapid.SampledFrom(DiskTimeframes[:3]).Draw(t, "tf")
	case c < 16:
		return "1Min"
	case c < 28:
		return "5Min"
	}
	return rapid.SampledFrom(DiskTimeframes[5:]).Draw(t, "tf")
}

func TFDuration(tf string) time.Duration {
	switch tf {
	case "1Sec":
		return time.Second
	case "10Sec":
		return 10 * time.Second
	case "30Sec":
		return 30 * time.Second
	case "1Min":
		return time.Minute
	case "5Min":
		return 5 * time.Minute
	case "15Min":
		return 15 * time.Minute
	case "30Min":
		return 30 * time.Minute
	case "1H":
		return time.Hour
	case "2H":
		return 2 * time.Hour
	case "4H":
		return 4 * time.Hour
	case "1D":
		return 24 * time.Hour
	}
	panic("tf " + tf)
}

// TimePool generates epochs (seconds) for one case: a few years around a leap
// year, with year edges, leap day, a handful of "hot" slots that attract
// repeats, and uniform picks.
type TimePool struct {
	Years []int
	TFSec int64
	hot   []int64
}

func NewTimePool(t *rapid.T, tf time.Duration, nYears int) *TimePool {
	base := rapid.SampledFrom([]int{1999, 2003, 2011, 2015, 2019, 2023}).Draw(t, "baseYear") // base+1 is a leap year
	p := &TimePool{TFSec: int64(tf / time.Second)}
	for i := 0; i < nYears; i++ {
		p.Years = append(p.Years, base+i)
	}
	nhot := rapid.IntRange(1, 6).Draw(t, "nhot")
	for i := 0; i < nhot; i++ {
		p.hot = append(p.hot, p.uniform(t))
	}
	return p
}

func yearStart(y int) int64 { return time.Date(y, 1, 1, 0, 0, 0, 0, time.UTC).Unix() }

func (p *TimePool) uniform(t *rapid.T) int64 {
	y := rapid.SampledFrom(p.Years).Draw(t, "year")
	return rapid.Int64Range(yearStart(y), yearStart(y+1)-1).Draw(t, "epoch")
}

// Class names of drawn epochs, for evidence.
const (
	TCFirstSlot = "t:first-slot-of-year"
	TCLastSlot  = "t:last-slot-of-year"
	TCLeapDay   = "t:leap-day"
	TCHot       = "t:hot-slot"
	TCNeighbour = "t:neighbour-slot"
	TCUniform   = "t:uniform"
)

// Draw returns an epoch and its class. Sub-slot position is random.
func (p *TimePool) Draw(t *rapid.T) (int64, string) {
	off := int64(0)
	if p.TFSec > 1 {
		off = rapid.OneOf(rapid.Just(int64(0)), rapid.Just(p.TFSec-1), rapid.Int64Range(0, p.TFSec-1)).Draw(t, "suboff")
	}
	switch rapid.IntRange(0, 9).Draw(t, "tclass") {
	case 0:
		y := rapid.SampledFrom(p.Years).Draw(t, "year")
		return yearStart(y) + off, TCFirstSlot
	case 1:
		y := rapid.SampledFrom(p.Years).Draw(t, "year")
		return yearStart(y+1) - p.TFSec + off, TCLastSlot
	case 2:
		for _, y := range p.Years {
			if y%4 == 0 {
				d := time.Date(y, 2, 29, 0, 0, 0, 0, time.UTC).Unix()
				return SlotStart(d+rapid.Int64Range(0, 86399).Draw(t, "leapsec"), time.Duration(p.TFSec)*time.Second) + off, TCLeapDay
			}
		}
		fallthrough
	case 3, 4, 5:
		h := rapid.SampledFrom(p.hot).Draw(t, "hot")
		return SlotStart(h, time.Duration(p.TFSec)*time.Second) + off, TCHot
	case 6, 7:
		h := rapid.SampledFrom(p.hot).Draw(t, "hot")
		k := rapid.Int64Range(-3, 3).Draw(t, "k")
		e := SlotStart(h, time.Duration(p.TFSec)*time.Second) + k*p.TFSec + off
		lo, hi := yearStart(p.Years[0]), yearStart(p.Years[len(p.Years)-1]+1)-1
		if e < lo {
			e = lo + off
		}
		if e > hi {
			e = hi
		}
		return e, TCNeighbour
	}
	return p.uniform(t), TCUniform
}
