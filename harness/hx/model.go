package hx

import (
	"bytes"
	"fmt"
	"sort"
	"time"

	"github.com/alpacahq/marketstore/v4/utils/io"
)

// The reference model. Written without marketstore's slot arithmetic
// (utils/io/timeindex.go): all supported on-disk timeframes divide a day and a
// year starts at a day boundary, so in UTC slot k of a year starts at
// floor(epoch/tf)*tf.

// SlotStart returns the start (epoch seconds, UTC) of the interval containing epoch.
func SlotStart(epoch int64, tf time.Duration) int64 {
	s := int64(tf / time.Second)
	if s <= 0 {
		panic("timeframe below one second")
	}
	q := epoch / s
	if epoch%s < 0 {
		q--
	}
	return q * s
}

func YearOf(epoch int64) int { return time.Unix(epoch, 0).UTC().Year() }

// RowBytes is row i of r as the concatenation of the column values' bytes.
func RowBytes(r *Rows, i int) []byte {
	var out []byte
	for _, c := range r.Cols {
		out = append(out, elemBytes(c, i)...)
	}
	return out
}

func elemBytes(col interface{}, i int) []byte {
	switch c := col.(type) {
	case []int8:
		return ColBytes(c[i : i+1])
	case []uint8:
		return ColBytes(c[i : i+1])
	case []int16:
		return ColBytes(c[i : i+1])
	case []uint16:
		return ColBytes(c[i : i+1])
	case []int32:
		return ColBytes(c[i : i+1])
	case []uint32:
		return ColBytes(c[i : i+1])
	case []int64:
		return ColBytes(c[i : i+1])
	case []uint64:
		return ColBytes(c[i : i+1])
	case []float32:
		return ColBytes(c[i : i+1])
	case []float64:
		return ColBytes(c[i : i+1])
	case [][16]rune:
		return ColBytes(c[i : i+1])
	}
	panic(fmt.Sprintf("elemBytes %T", col))
}

// VRec is one variable-length record as written.
type VRec struct {
	TimeNs int64 // full written time, ns since the Unix epoch
	Row    []byte
	Op     int
}

// MBucket is the model of one bucket.
type MBucket struct {
	B     *Bucket
	Fixed map[int64][]byte // slot start -> row bytes of the last write
	Var   []VRec           // every record, in write order
	Years map[int]bool
}

func NewMBucket(b *Bucket) *MBucket {
	return &MBucket{B: b, Fixed: map[int64][]byte{}, Years: map[int]bool{}}
}

// Apply applies one successful write request to the model. It returns the
// number of fixed slots that were overwritten (already present, or repeated
// inside the request).
func (m *MBucket) Apply(r *Rows, op int) (overwrites int) {
	tf := m.B.TFDur()
	for i, e := range r.Epoch {
		m.Years[YearOf(e)] = true
		if m.B.Variable {
			ns := int64(0)
			if r.Nanos != nil {
				ns = int64(r.Nanos[i])
			}
			m.Var = append(m.Var, VRec{TimeNs: e*1e9 + ns, Row: RowBytes(r, i), Op: op})
			continue
		}
		s := SlotStart(e, tf)
		if _, ok := m.Fixed[s]; ok {
			overwrites++
		}
		m.Fixed[s] = RowBytes(r, i)
	}
	return overwrites
}

// FixedSlots returns the written slot starts in ascending order.
func (m *MBucket) FixedSlots() []int64 {
	out := make([]int64, 0, len(m.Fixed))
	for s := range m.Fixed {
		out = append(out, s)
	}
	sort.Slice(out, func(i, j int) bool { return out[i] < out[j] })
	return out
}

// CheckSchema verifies names, order and Go types of a result's data columns.
func CheckSchema(b *Bucket, got *Rows) error {
	if got.Len() == 0 {
		return nil
	}
	if len(got.Names) != len(b.Schema) {
		return fmt.Errorf("columns %v, want %v", got.Names, b.Schema)
	}
	for i, ds := range b.Schema {
		if got.Names[i] != ds.Name {
			return fmt.Errorf("column %d is %q, want %q", i, got.Names[i], ds.Name)
		}
		if gt := GoTypeOf(got.Cols[i]); gt != ExpectedGoType(ds.Type) {
			return fmt.Errorf("column %q has Go type %s, want %s", ds.Name, gt, ExpectedGoType(ds.Type))
		}
	}
	return nil
}

// CheckFixedAll compares an all-time result with the model of a fixed bucket:
// exactly one row per written slot, ascending, Epoch = slot start, bytes of the
// last write. skip(slot) excludes slots inside an open finding's region: they
// may be missing or present with any value.
func (m *MBucket) CheckFixedAll(got *Rows, skip func(slot int64) bool) error {
	if err := CheckSchema(m.B, got); err != nil {
		return err
	}
	want := m.FixedSlots()
	gi := 0
	for _, s := range want {
		if skip != nil && skip(s) {
			if gi < got.Len() && got.Epoch[gi] == s {
				gi++
			}
			continue
		}
		if gi >= got.Len() {
			return fmt.Errorf("row for slot %d (%s) missing: result has %d rows, model %d",
				s, time.Unix(s, 0).UTC().Format(time.RFC3339), got.Len(), len(want))
		}
		if got.Epoch[gi] != s {
			return fmt.Errorf("row %d has Epoch %d (%s), model expects slot %d (%s)", gi, got.Epoch[gi],
				time.Unix(got.Epoch[gi], 0).UTC().Format(time.RFC3339), s, time.Unix(s, 0).UTC().Format(time.RFC3339))
		}
		if rb := RowBytes(got, gi); !bytes.Equal(rb, m.Fixed[s]) {
			return fmt.Errorf("slot %d (%s): values %x, last write was %x", s,
				time.Unix(s, 0).UTC().Format(time.RFC3339), rb, m.Fixed[s])
		}
		gi++
	}
	if gi != got.Len() {
		return fmt.Errorf("result has %d extra rows, first extra Epoch %d", got.Len()-gi, got.Epoch[gi])
	}
	return nil
}

// ResolutionNs is one timestamp resolution step of a variable-length bucket
// (interval / 2^32), rounded up to a whole nanosecond.
func ResolutionNs(tf time.Duration) int64 {
	return (tf.Nanoseconds() + (1<<32 - 1)) >> 32
}

// CheckVarAll compares an all-time result with the model of a variable bucket.
// skip(slot) excludes intervals inside an open finding's region on both sides.
func (m *MBucket) CheckVarAll(got *Rows, skip func(slot int64) bool) error {
	return CheckVar(m.B, m.Var, got, skip)
}

// CheckVar compares a result with an expected record list (used for all-time
// and for ranged expectations).
func CheckVar(b *Bucket, wantRecs []VRec, got *Rows, skip func(slot int64) bool) error {
	if err := CheckSchema(b, got); err != nil {
		return err
	}
	if got.Len() > 0 && got.Nanos == nil {
		return fmt.Errorf("variable-length result without Nanoseconds column")
	}
	tf := b.TFDur()
	res := ResolutionNs(tf)
	if skip == nil && got.Len() != len(wantRecs) {
		return fmt.Errorf("result has %d records, %d were written", got.Len(), len(wantRecs))
	}
	// time order
	prev := int64(-1 << 62)
	type gotRec struct {
		t   int64
		row string
	}
	perSlotGot := map[int64][]gotRec{}
	for i := 0; i < got.Len(); i++ {
		t := got.Epoch[i]*1e9 + int64(got.Nanos[i])
		if got.Nanos[i] < 0 || got.Nanos[i] >= 1e9 {
			return fmt.Errorf("record %d: Nanoseconds %d out of range", i, got.Nanos[i])
		}
		if t < prev {
			return fmt.Errorf("record %d at %d ns is earlier than its predecessor at %d ns", i, t, prev)
		}
		prev = t
		s := SlotStart(got.Epoch[i], tf)
		if skip != nil && skip(s) {
			continue
		}
		perSlotGot[s] = append(perSlotGot[s], gotRec{t, string(RowBytes(got, i))})
	}
	perSlotWant := map[int64][]gotRec{}
	for _, v := range wantRecs {
		s := SlotStart(v.TimeNs/1e9, tf)
		if skip != nil && skip(s) {
			continue
		}
		perSlotWant[s] = append(perSlotWant[s], gotRec{v.TimeNs, string(v.Row)})
	}
	for s, w := range perSlotWant {
		g := perSlotGot[s]
		if len(g) != len(w) {
			return fmt.Errorf("interval %s: %d records returned, %d written",
				time.Unix(s, 0).UTC().Format(time.RFC3339), len(g), len(w))
		}
		// group by payload, then pair by time
		group := func(l []gotRec) map[string][]int64 {
			o := map[string][]int64{}
			for _, r := range l {
				o[r.row] = append(o[r.row], r.t)
			}
			for _, ts := range o {
				sort.Slice(ts, func(i, j int) bool { return ts[i] < ts[j] })
			}
			return o
		}
		gg, wg := group(g), group(w)
		for row, wts := range wg {
			gts := gg[row]
			if len(gts) != len(wts) {
				return fmt.Errorf("interval %s: payload %x written %d times, returned %d times",
					time.Unix(s, 0).UTC().Format(time.RFC3339), row, len(wts), len(gts))
			}
			for i := range wts {
				d := wts[i] - gts[i]
				if d < 0 || d > res {
					return fmt.Errorf("interval %s: record written at %d ns returned at %d ns (diff %d, resolution step %d ns)",
						time.Unix(s, 0).UTC().Format(time.RFC3339), wts[i], gts[i], d, res)
				}
			}
		}
	}
	return nil
}

// SchemaOf returns the DataShapes incl. Epoch the bucket is created with.
func (b *Bucket) SchemaWithEpoch() []io.DataShape {
	return append([]io.DataShape{{Name: "Epoch", Type: io.INT64}}, b.Schema...)
}
