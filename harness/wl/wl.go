// Package wl describes crash-test workloads (histories) and restart dumps,
// shared by the traced workload driver, the restart helper and the checks.
package wl

import (
	"encoding/json"
	"os"

	"github.com/alpacahq/marketstore/v4/utils/io"

	"verifharness/hx"
)

// Every crash-test bucket has the columns Tag (i8: op<<20|row, unique per
// written row) and Val (i4).
var Schema = []io.DataShape{{Name: "Tag", Type: io.INT64}, {Name: "Val", Type: io.INT32}}

type BucketSpec struct {
	Sym      string `json:"sym"`
	TF       string `json:"tf"`
	Variable bool   `json:"variable"`
}

func (b BucketSpec) Bucket() *hx.Bucket {
	return &hx.Bucket{Sym: b.Sym, TF: b.TF, Group: "G", Variable: b.Variable, Schema: Schema}
}

// Part is the rows of one bucket inside a write request.
type Part struct {
	Bucket int     `json:"bucket"`
	Epoch  []int64 `json:"epoch"`
	Nanos  []int32 `json:"nanos,omitempty"`
}

type Op struct {
	Kind   string `json:"kind"` // write | checkpoint | sleep | shutdown | destroy
	Parts  []Part `json:"parts,omitempty"`
	Bucket int    `json:"bucket,omitempty"` // destroy: index of the bucket
	Ms     int    `json:"ms,omitempty"`
	Writer int    `json:"writer,omitempty"` // goroutine that issues the op (bg mode)
}

type History struct {
	Mode             string       `json:"mode"` // sync | bg
	WALRefreshMs     int          `json:"wal_refresh_ms,omitempty"`
	PrimaryRefreshMs int          `json:"primary_refresh_ms,omitempty"`
	Rotate           int          `json:"rotate,omitempty"`
	Writers          int          `json:"writers,omitempty"`
	Buckets          []BucketSpec `json:"buckets"`
	Ops              []Op         `json:"ops"`
}

func Tag(op, row int) int64 { return int64(op+1)<<20 | int64(row) } // never 0: searchable in WAL bytes

// Rows builds the request rows of part p of op number op. Row numbering runs
// over all parts of the op.
func (h *History) Rows(op int, pi int) *hx.Rows {
	o := h.Ops[op]
	base := 0
	for i := 0; i < pi; i++ {
		base += len(o.Parts[i].Epoch)
	}
	p := o.Parts[pi]
	r := &hx.Rows{Epoch: p.Epoch, Names: []string{"Tag", "Val"}}
	tags := make([]int64, len(p.Epoch))
	vals := make([]int32, len(p.Epoch))
	for i := range p.Epoch {
		tags[i] = Tag(op, base+i)
		vals[i] = int32(op*1000 + base + i)
	}
	r.Cols = []interface{}{tags, vals}
	if h.Buckets[p.Bucket].Variable {
		r.Nanos = p.Nanos
		if r.Nanos == nil {
			r.Nanos = make([]int32, len(p.Epoch))
		}
	}
	return r
}

// BucketDump is what a restarted server returns for one bucket.
type BucketDump struct {
	Key   string  `json:"key"`
	Error string  `json:"error,omitempty"`
	Epoch []int64 `json:"epoch"`
	Nanos []int32 `json:"nanos,omitempty"`
	Tag   []int64 `json:"tag"`
	Val   []int32 `json:"val"`
}

type Dump struct {
	Phase    string       `json:"phase"`
	Buckets  []BucketDump `json:"buckets"`
	WALFiles []string     `json:"wal_files"` // *.walfile / *.tmp found in the root after start-up
	Catalog  []string     `json:"catalog"`
}

func ReadJSON(path string, v interface{}) error {
	b, err := os.ReadFile(path)
	if err != nil {
		return err
	}
	return json.Unmarshal(b, v)
}

func WriteJSON(path string, v interface{}) error {
	b, err := json.Marshal(v)
	if err != nil {
		return err
	}
	return os.WriteFile(path, b, 0o644)
}
