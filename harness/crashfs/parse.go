// Package crashfs turns an strace recording of a real server run into an
// ordered list of file-system events under the data root, and re-materialises
// the directory as it would be found after a crash at any point of that list
// (process crash: every prefix; power loss: prefixes with unsynced data
// dropped or torn).
package crashfs

import (
	"bufio"
	"fmt"
	"os"
	"path/filepath"
	"strconv"
	"strings"
)

type Kind int

const (
	EvCreate   Kind = iota // openat with O_CREAT that created / opened a file
	EvWrite                // write/pwrite64: Off, Data
	EvTruncate             // ftruncate: Size
	EvRename               // rename: Path -> Path2
	EvUnlink               // unlinkat
	EvMkdir                // mkdirat
	EvFsync                // fsync/fdatasync of Path
	EvSync                 // sync()/syncfs: everything durable
	EvMark                 // marker line written to stdout by the workload (BEG n / ACK n / ...)
)

func (k Kind) String() string {
	return [...]string{"create", "write", "truncate", "rename", "unlink", "mkdir", "fsync", "sync", "mark"}[k]
}

type Event struct {
	Kind  Kind
	Path  string // relative to the root
	Path2 string
	Off   int64
	Data  []byte
	Size  int64
	Mark  string
	Trunc bool // create with O_TRUNC
	Line  int
}

// Mutating reports whether the event changes the directory tree (a crash
// point lies before every mutating event and after the last one).
func (e *Event) Mutating() bool {
	switch e.Kind {
	case EvCreate, EvWrite, EvTruncate, EvRename, EvUnlink, EvMkdir:
		return true
	}
	return false
}

type fdState struct {
	path   string
	pos    int64
	append bool
}

type parser struct {
	root    string
	fds     map[int]*fdState
	pending map[string]string // pid -> unfinished prefix
	sizes   map[string]int64  // current size per path (for O_APPEND / SEEK_END)
	events  []Event
}

// ParseFile parses an strace log (-f -y -xx -s big) and returns the events that
// touch files under root, plus marker lines written to fd 1.
func ParseFile(logPath, root string) ([]Event, error) {
	f, err := os.Open(logPath)
	if err != nil {
		return nil, err
	}
	defer f.Close()
	root = filepath.Clean(root)
	p := &parser{root: root, fds: map[int]*fdState{}, pending: map[string]string{}, sizes: map[string]int64{}}
	sc := bufio.NewScanner(f)
	sc.Buffer(make([]byte, 1<<20), 1<<30)
	ln := 0
	for sc.Scan() {
		ln++
		line := sc.Text()
		sp := strings.IndexByte(line, ' ')
		if sp < 0 {
			continue
		}
		pid, rest := line[:sp], strings.TrimLeft(line[sp+1:], " ")
		if strings.HasPrefix(rest, "+++") || strings.HasPrefix(rest, "---") {
			continue
		}
		if strings.HasSuffix(rest, "<unfinished ...>") {
			p.pending[pid] = strings.TrimSuffix(rest, "<unfinished ...>")
			continue
		}
		if strings.HasPrefix(rest, "<... ") {
			i := strings.Index(rest, "resumed>")
			if i < 0 {
				continue
			}
			pre, ok := p.pending[pid]
			if !ok {
				continue
			}
			delete(p.pending, pid)
			rest = pre + rest[i+len("resumed>"):]
		}
		if err := p.handle(rest, ln); err != nil {
			return nil, fmt.Errorf("line %d: %v: %.200s", ln, err, rest)
		}
	}
	return p.events, sc.Err()
}

// splitCall splits "name(args) = ret..." into name, args, ret.
func splitCall(s string) (name string, args []string, ret string, ok bool) {
	i := strings.IndexByte(s, '(')
	if i < 0 {
		return "", nil, "", false
	}
	name = s[:i]
	e := strings.LastIndex(s, " = ")
	if e < 0 {
		return "", nil, "", false
	}
	ret = strings.TrimSpace(s[e+3:])
	j := strings.LastIndexByte(strings.TrimRight(s[:e], " "), ')')
	if j < i {
		return "", nil, "", false
	}
	body := s[i+1 : j]
	// tokenise on ", " outside quotes / angle brackets / braces
	var cur strings.Builder
	depthAngle, depthBrace, inQ := 0, 0, false
	for k := 0; k < len(body); k++ {
		c := body[k]
		switch {
		case inQ:
			cur.WriteByte(c)
			if c == '\\' && k+1 < len(body) {
				k++
				cur.WriteByte(body[k])
			} else if c == '"' {
				inQ = false
			}
		case c == '"':
			inQ = true
			cur.WriteByte(c)
		case c == '<':
			depthAngle++
			cur.WriteByte(c)
		case c == '>' && depthAngle > 0:
			depthAngle--
			cur.WriteByte(c)
		case c == '{' || c == '[':
			depthBrace++
			cur.WriteByte(c)
		case (c == '}' || c == ']') && depthBrace > 0:
			depthBrace--
			cur.WriteByte(c)
		case c == ',' && depthAngle == 0 && depthBrace == 0:
			args = append(args, strings.TrimSpace(cur.String()))
			cur.Reset()
		default:
			cur.WriteByte(c)
		}
	}
	if cur.Len() > 0 {
		args = append(args, strings.TrimSpace(cur.String()))
	}
	return name, args, ret, true
}

// fdArg parses `7</path>` -> 7, "/path".
func fdArg(a string) (int, string) {
	i := strings.IndexByte(a, '<')
	if i < 0 {
		n, _ := strconv.Atoi(a)
		return n, ""
	}
	n, _ := strconv.Atoi(a[:i])
	p := strings.TrimSuffix(a[i+1:], ">")
	p = string(strArg(p)) // with -xx the annotation is hex-escaped too
	p = strings.TrimSuffix(p, " (deleted)")
	return n, p
}

// strArg decodes a -xx string literal "\x41\x42"... (optionally followed by ...).
func strArg(a string) []byte {
	a = strings.TrimSuffix(a, "...")
	a = strings.TrimPrefix(a, "\"")
	a = strings.TrimSuffix(a, "\"")
	out := make([]byte, 0, len(a)/4)
	for i := 0; i < len(a); {
		if a[i] == '\\' && i+3 < len(a) && a[i+1] == 'x' {
			v, _ := strconv.ParseUint(a[i+2:i+4], 16, 8)
			out = append(out, byte(v))
			i += 4
		} else {
			out = append(out, a[i])
			i++
		}
	}
	return out
}

func (p *parser) rel(path string) (string, bool) {
	path = filepath.Clean(path)
	if path == p.root {
		return ".", true
	}
	if strings.HasPrefix(path, p.root+"/") {
		return path[len(p.root)+1:], true
	}
	return "", false
}

func (p *parser) absAt(dirArg, pathBytes string) string {
	if filepath.IsAbs(pathBytes) {
		return pathBytes
	}
	_, d := fdArg(dirArg)
	return filepath.Join(d, pathBytes)
}

func retInt(ret string) (int64, bool) {
	f := strings.Fields(ret)
	if len(f) == 0 {
		return 0, false
	}
	tok := f[0]
	if i := strings.IndexByte(tok, '<'); i >= 0 {
		tok = tok[:i]
	}
	n, err := strconv.ParseInt(tok, 10, 64)
	if err != nil {
		return 0, false
	}
	return n, true
}

func (p *parser) add(e Event, ln int) {
	e.Line = ln
	p.events = append(p.events, e)
}

func (p *parser) handle(s string, ln int) error {
	name, args, ret, ok := splitCall(s)
	if !ok {
		return nil
	}
	rv, rok := retInt(ret)
	if !rok || rv < 0 {
		// failed call: no effect (but an exit_group etc. has no return)
		return nil
	}
	switch name {
	case "openat":
		if len(args) < 3 {
			return nil
		}
		path := p.absAt(args[0], string(strArg(args[1])))
		fd := int(rv)
		flags := args[2]
		st := &fdState{path: path, append: strings.Contains(flags, "O_APPEND")}
		p.fds[fd] = st
		if r, ok := p.rel(path); ok {
			if strings.Contains(flags, "O_CREAT") || strings.Contains(flags, "O_TRUNC") {
				tr := strings.Contains(flags, "O_TRUNC")
				if tr {
					p.sizes[r] = 0
				}
				if _, ok := p.sizes[r]; !ok {
					p.sizes[r] = 0
				}
				p.add(Event{Kind: EvCreate, Path: r, Trunc: tr}, ln)
			}
		}
	case "close":
		fd, _ := fdArg(args[0])
		delete(p.fds, fd)
	case "read":
		fd, _ := fdArg(args[0])
		if st := p.fds[fd]; st != nil {
			st.pos += rv
		}
	case "lseek":
		fd, _ := fdArg(args[0])
		if st := p.fds[fd]; st != nil {
			st.pos = rv
		}
	case "write":
		fd, path := fdArg(args[0])
		if fd == 1 {
			p.add(Event{Kind: EvMark, Mark: strings.TrimSpace(string(strArg(args[1])))}, ln)
			return nil
		}
		st := p.fds[fd]
		if st == nil {
			st = &fdState{path: path}
			p.fds[fd] = st
		}
		if path == "" {
			path = st.path
		}
		r, ok := p.rel(path)
		if !ok {
			st.pos += rv
			return nil
		}
		data := strArg(args[1])
		if int64(len(data)) < rv {
			return fmt.Errorf("write payload truncated in trace (%d < %d): raise strace -s", len(data), rv)
		}
		data = data[:rv]
		off := st.pos
		if st.append {
			off = p.sizes[r]
		}
		st.pos = off + rv
		if off+rv > p.sizes[r] {
			p.sizes[r] = off + rv
		}
		p.add(Event{Kind: EvWrite, Path: r, Off: off, Data: data}, ln)
	case "pwrite64":
		_, path := fdArg(args[0])
		r, ok := p.rel(path)
		if !ok {
			return nil
		}
		data := strArg(args[1])
		if int64(len(data)) < rv {
			return fmt.Errorf("pwrite payload truncated in trace: raise strace -s")
		}
		off, _ := strconv.ParseInt(args[len(args)-1], 10, 64)
		if off+rv > p.sizes[r] {
			p.sizes[r] = off + rv
		}
		p.add(Event{Kind: EvWrite, Path: r, Off: off, Data: data[:rv]}, ln)
	case "pread64":
	case "ftruncate":
		_, path := fdArg(args[0])
		if r, ok := p.rel(path); ok {
			sz, _ := strconv.ParseInt(args[1], 10, 64)
			p.sizes[r] = sz
			p.add(Event{Kind: EvTruncate, Path: r, Size: sz}, ln)
		}
	case "fsync", "fdatasync":
		_, path := fdArg(args[0])
		if r, ok := p.rel(path); ok {
			p.add(Event{Kind: EvFsync, Path: r}, ln)
		}
	case "sync", "syncfs":
		p.add(Event{Kind: EvSync}, ln)
	case "unlinkat":
		path := p.absAt(args[0], string(strArg(args[1])))
		if r, ok := p.rel(path); ok {
			delete(p.sizes, r)
			p.add(Event{Kind: EvUnlink, Path: r}, ln)
		}
	case "unlink", "rmdir":
		path := string(strArg(args[0]))
		if r, ok := p.rel(path); ok {
			delete(p.sizes, r)
			p.add(Event{Kind: EvUnlink, Path: r}, ln)
		}
	case "mkdirat":
		path := p.absAt(args[0], string(strArg(args[1])))
		if r, ok := p.rel(path); ok {
			p.add(Event{Kind: EvMkdir, Path: r}, ln)
		}
	case "mkdir":
		path := string(strArg(args[0]))
		if r, ok := p.rel(path); ok {
			p.add(Event{Kind: EvMkdir, Path: r}, ln)
		}
	case "renameat", "renameat2":
		from := p.absAt(args[0], string(strArg(args[1])))
		to := p.absAt(args[2], string(strArg(args[3])))
		rf, ok1 := p.rel(from)
		rt, ok2 := p.rel(to)
		if ok1 && ok2 {
			p.sizes[rt] = p.sizes[rf]
			delete(p.sizes, rf)
			for _, st := range p.fds {
				if st.path == from {
					st.path = to
				}
			}
			p.add(Event{Kind: EvRename, Path: rf, Path2: rt}, ln)
		}
	case "rename":
		from, to := string(strArg(args[0])), string(strArg(args[1]))
		rf, ok1 := p.rel(from)
		rt, ok2 := p.rel(to)
		if ok1 && ok2 {
			p.sizes[rt] = p.sizes[rf]
			delete(p.sizes, rf)
			p.add(Event{Kind: EvRename, Path: rf, Path2: rt}, ln)
		}
	}
	return nil
}
