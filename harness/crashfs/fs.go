package crashfs

import (
	"fmt"
	"os"
	"path/filepath"
	"sort"
	"strings"
)

type extent struct {
	off  int64
	data []byte
}

type file struct {
	size int64
	ext  []extent
}

// Variant describes a power-loss outcome on top of a crash prefix: which
// unsynced data writes were lost entirely and which were torn (only the first
// Keep bytes reached the disk). Metadata operations are never dropped.
type Variant struct {
	Drop map[int]bool `json:"drop,omitempty"` // event index -> lost
	Tear map[int]int  `json:"tear,omitempty"` // event index -> bytes kept
	Desc string       `json:"desc,omitempty"`
}

type state struct {
	files map[string]*file
	dirs  map[string]bool
}

func build(events []Event, k int, v *Variant) *state {
	st := &state{files: map[string]*file{}, dirs: map[string]bool{}}
	for i := 0; i < k && i < len(events); i++ {
		e := &events[i]
		switch e.Kind {
		case EvCreate:
			f := st.files[e.Path]
			if f == nil {
				f = &file{}
				st.files[e.Path] = f
			}
			if e.Trunc {
				f.size, f.ext = 0, nil
			}
		case EvWrite:
			data := e.Data
			if v != nil {
				if v.Drop[i] {
					continue
				}
				if keep, ok := v.Tear[i]; ok && keep < len(data) {
					data = data[:keep]
				}
			}
			f := st.files[e.Path]
			if f == nil {
				f = &file{}
				st.files[e.Path] = f
			}
			f.ext = append(f.ext, extent{e.Off, data})
			if end := e.Off + int64(len(data)); end > f.size {
				f.size = end
			}
		case EvTruncate:
			f := st.files[e.Path]
			if f == nil {
				f = &file{}
				st.files[e.Path] = f
			}
			if e.Size < f.size {
				// cut extents
				var ne []extent
				for _, x := range f.ext {
					if x.off >= e.Size {
						continue
					}
					if x.off+int64(len(x.data)) > e.Size {
						x.data = x.data[:e.Size-x.off]
					}
					ne = append(ne, x)
				}
				f.ext = ne
			}
			f.size = e.Size
		case EvRename:
			if f, ok := st.files[e.Path]; ok {
				st.files[e.Path2] = f
				delete(st.files, e.Path)
			} else {
				pre := e.Path + "/"
				for p, f := range st.files {
					if strings.HasPrefix(p, pre) {
						st.files[e.Path2+"/"+p[len(pre):]] = f
						delete(st.files, p)
					}
				}
				for d := range st.dirs {
					if d == e.Path || strings.HasPrefix(d, pre) {
						st.dirs[e.Path2+d[len(e.Path):]] = true
						delete(st.dirs, d)
					}
				}
			}
		case EvUnlink:
			delete(st.files, e.Path)
			delete(st.dirs, e.Path)
		case EvMkdir:
			st.dirs[e.Path] = true
		}
	}
	return st
}

// Materialize writes the directory tree as of crash point k (the first k events
// applied) with power-loss variant v (nil = process crash) into dst.
func Materialize(events []Event, k int, v *Variant, dst string) error {
	st := build(events, k, v)
	if err := os.MkdirAll(dst, 0o770); err != nil {
		return err
	}
	dirs := make([]string, 0, len(st.dirs))
	for d := range st.dirs {
		dirs = append(dirs, d)
	}
	sort.Strings(dirs)
	for _, d := range dirs {
		if err := os.MkdirAll(filepath.Join(dst, d), 0o770); err != nil {
			return err
		}
	}
	for p, f := range st.files {
		full := filepath.Join(dst, p)
		if err := os.MkdirAll(filepath.Dir(full), 0o770); err != nil {
			return err
		}
		fp, err := os.OpenFile(full, os.O_CREATE|os.O_RDWR|os.O_TRUNC, 0o600)
		if err != nil {
			return err
		}
		if err := fp.Truncate(f.size); err != nil {
			fp.Close()
			return err
		}
		for _, x := range f.ext {
			if _, err := fp.WriteAt(x.data, x.off); err != nil {
				fp.Close()
				return err
			}
		}
		if err := fp.Close(); err != nil {
			return err
		}
	}
	return nil
}

// CrashPoints returns every k such that events[:k] ends right before a mutating
// event, plus len(events) (everything applied). Crash point k means "the first
// k events happened".
func CrashPoints(events []Event) []int {
	var out []int
	for i := range events {
		if events[i].Mutating() {
			out = append(out, i)
		}
	}
	out = append(out, len(events))
	return out
}

// PowerLossPoints are the crash points of the power-loss model: the process-crash points plus
// the points directly before every fsync()/sync() - there the set of unsynced writes is largest,
// and a state such as "checkpoint PREPARING written, global sync not yet done" exists only there
// (under the process-crash model it equals its neighbour and is not enumerated separately).
func PowerLossPoints(events []Event) []int {
	var out []int
	for i := range events {
		if events[i].Mutating() || events[i].Kind == EvSync || events[i].Kind == EvFsync {
			out = append(out, i)
		}
	}
	out = append(out, len(events))
	return out
}

// Pending returns the indices (< k) of data writes that are not yet durable at
// crash point k: no fsync of the same file and no global sync() between the
// write and k. File identity follows renames.
func Pending(events []Event, k int) []int {
	id := map[string]int{} // path -> file id
	next := 1
	get := func(p string) int {
		if v, ok := id[p]; ok {
			return v
		}
		id[p] = next
		next++
		return id[p]
	}
	type pw struct{ idx, fid int }
	var pend []pw
	for i := 0; i < k && i < len(events); i++ {
		e := &events[i]
		switch e.Kind {
		case EvWrite:
			pend = append(pend, pw{i, get(e.Path)})
		case EvFsync:
			fid := get(e.Path)
			n := pend[:0]
			for _, p := range pend {
				if p.fid != fid {
					n = append(n, p)
				}
			}
			pend = n
		case EvSync:
			pend = pend[:0]
		case EvRename:
			if v, ok := id[e.Path]; ok {
				id[e.Path2] = v
				delete(id, e.Path)
			}
		case EvUnlink:
			if fid, ok := id[e.Path]; ok {
				n := pend[:0]
				for _, p := range pend {
					if p.fid != fid {
						n = append(n, p)
					}
				}
				pend = n
				delete(id, e.Path)
			}
		case EvCreate:
			if e.Trunc {
				fid := get(e.Path)
				n := pend[:0]
				for _, p := range pend {
					if p.fid != fid {
						n = append(n, p)
					}
				}
				pend = n
			}
		}
	}
	out := make([]int, len(pend))
	for i, p := range pend {
		out[i] = p.idx
	}
	return out
}

// Describe renders an event compactly for failure messages.
func (e *Event) Describe() string {
	switch e.Kind {
	case EvWrite:
		return fmt.Sprintf("write %s off=%d len=%d", e.Path, e.Off, len(e.Data))
	case EvTruncate:
		return fmt.Sprintf("truncate %s size=%d", e.Path, e.Size)
	case EvRename:
		return fmt.Sprintf("rename %s -> %s", e.Path, e.Path2)
	case EvMark:
		return "mark " + e.Mark
	case EvSync:
		return "sync()"
	}
	return fmt.Sprintf("%s %s", e.Kind, e.Path)
}
