#!/usr/bin/env python3
"""Runs the repository's own test suite (guard OFF: no build tags) and compares
with /root/.vp/BASELINE.json: every stable_pass test must pass."""
import json, os, subprocess, sys
env = dict(os.environ, GOFLAGS="-mod=mod", GOPROXY="off", GOSUMDB="off", GOTOOLCHAIN="local")
base = json.load(open("/root/.vp/BASELINE.json"))
want = set(base["stable_pass"])
p = subprocess.run(["go", "test", "-json", "-vet=off", "-count=1", "-timeout", "25m", "./..."], cwd="/repo",
                   env=env, stdout=subprocess.PIPE, stderr=subprocess.STDOUT, text=True)
passed, failed = set(), set()
for line in p.stdout.splitlines():
    try:
        e = json.loads(line)
    except Exception:
        continue
    if e.get("Test") and e.get("Action") in ("pass", "fail"):
        (passed if e["Action"] == "pass" else failed).add("%s::%s" % (e["Package"], e["Test"]))
missing = sorted(want - passed)
print("baseline: %d/%d stable tests passed; %d failed overall" % (len(want & passed), len(want), len(failed)))
for f in sorted(failed)[:20]:
    print("  FAILED:", f)
for m in missing[:40]:
    print("  NOT PASSED:", m)
subprocess.run(["git", "-C", "/repo", "status", "--short"])
sys.exit(1 if missing else 0)
