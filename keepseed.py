#!/usr/bin/env python3
"""Copies a validated seeded change from the sub-agent's output directory into /verif/seeded/<tag>/.

  python3 keepseed.py <dir with patch.diff, meta.json, validation.json, demo files> [--note "..."]

Keeps patch.diff, the demonstration file(s) and a meta.json that records: which property the change
breaks, what it needs in order to manifest, what was run to confirm it (seedcheck.py), and which
checks reported a violation against it."""
import argparse, json, os, shutil, sys
HERE = os.path.dirname(os.path.abspath(__file__))


def main():
    ap = argparse.ArgumentParser()
    ap.add_argument("dir")
    ap.add_argument("--note", default="")
    a = ap.parse_args()
    d = os.path.abspath(a.dir)
    tag = os.path.basename(d.rstrip("/"))
    meta = json.load(open(os.path.join(d, "meta.json")))
    val = json.load(open(os.path.join(d, "validation.json")))
    if not val.get("valid"):
        print("not valid, not kept:", tag, {k: val.get(k) for k in ("demo_unchanged_rc", "demo_changed_fail_runs_of_3", "suite_stable_not_passed", "apply_rc", "build_rc")})
        return 1
    dst = os.path.join(HERE, "seeded", tag)
    # merge with an earlier record of this seed (checks run in several rounds)
    old = {}
    if os.path.exists(os.path.join(dst, "meta.json")):
        old = json.load(open(os.path.join(dst, "meta.json")))
    os.makedirs(dst, exist_ok=True)
    shutil.copy(os.path.join(d, "patch.diff"), os.path.join(dst, "patch.diff"))
    for f in meta.get("demo_files", []):
        shutil.copy(os.path.join(d, f["src"]), os.path.join(dst, f["src"]))
    checks = dict(old.get("checks_run", {}))
    for c, r in (val.get("checks") or {}).items():
        checks[c] = dict(exit=r["rc"], wall_s=r["wall"], first_failure=(r.get("first_failure") or [""])[0][:300], repo_head=val.get("repo_head"))
    caught = sorted(c for c, r in checks.items() if r["exit"] == 1)
    missed = sorted(c for c, r in checks.items() if r["exit"] != 1)
    out = dict(
        property=meta["property"],
        summary=meta.get("summary", ""),
        needs_to_manifest=meta.get("needs_to_manifest", ""),
        files_changed=meta.get("files_changed", []),
        demo_files=meta.get("demo_files", []),
        demo_cmd=meta.get("demo_cmd", ""),
        expected_with_change=meta.get("expected_with_change", ""),
        written_by="fresh sub-agent that saw only the property text and its own scratch worktree",
        what_i_ran=("python3 seedcheck.py <dir> in a scratch worktree of /repo (HEAD %s): demonstration on the unchanged tree passed 3/3, "
                    "with the change failed %s/3; go build ./... ok; the repository's own suite with the change: all 322 baseline "
                    "tests passed; then python3 run.py <check> --tier quick with VERIF_REPO=<scratch worktree>" % (
                        val.get("repo_head"), val.get("demo_changed_fail_runs_of_3", old.get("demo_fail_runs", "?")))),
        demo_fail_runs=val.get("demo_changed_fail_runs_of_3", old.get("demo_fail_runs")),
        checks_run=checks,
        caught_by=caught,
        not_caught_by=missed,
        note=a.note or old.get("note", ""),
    )
    out["caught_by_text"] = (", ".join(caught) if caught else "NOT CAUGHT") + ((" (" + out["note"] + ")") if out["note"] else "")
    json.dump(out, open(os.path.join(dst, "meta.json"), "w"), indent=1)
    print("kept", tag, "caught_by", caught, "not caught by", missed)
    return 0


if __name__ == "__main__":
    sys.exit(main())
