"""Registry of checks: one entry per property (see DESIGN.md section 5)."""

CHECKS = {
    "C29": dict(
        test="TestC29", level="exploration", shards=16,
        tiers=dict(quick=dict(checks=400, timeout=300), thorough=dict(checks=40000, timeout=2400)),
        rule="rapid-generated column series (1-40 columns over all 11 wire types, 0-500 rows, raw bit patterns, "
             "align on/off, writer path ToRowSeries or reader path NewRowSeries(FIXED)); non-trivial = align=true "
             "with an unaligned record length and >=1 row, distinct by (schema, rows, data hash)",
        assumptions=["round trip compared byte for byte with the harness's own little-endian encoder"],
    ),
    "C08": dict(
        test="TestC08", level="exploration", shards=16,
        tiers=dict(quick=dict(checks=40, timeout=600), thorough=dict(checks=2500, timeout=3000)),
        rule="rapid histories of 1-8 write requests (1-300 rows, unsorted, repeated slots, 1-3 years incl. first/last "
             "slot of a year and leap day, all on-disk timeframes, 1-5 columns over all wire types) against an "
             "in-memory last-writer-wins model, checked after every request; non-trivial = >=1 overwritten slot and "
             ">=2 year files, distinct by (timeframe, schema, final model state)",
        assumptions=["system and configured time zone UTC", "model slot arithmetic: floor(epoch/tf)*tf"],
    ),
    "C09": dict(
        test="TestC09", level="exploration", shards=16,
        tiers=dict(quick=dict(checks=30, timeout=600), thorough=dict(checks=1500, timeout=3000)),
        rule="rapid histories of 1-6 variable-length write requests (1-3000 records over 1-4 intervals each, ns offsets "
             "from boundary classes {0,1,res-1,res,last ns,second edges} and uniform, payload random/constant/few-values, "
             "all on-disk timeframes, 1-3 years) against a multiset model; non-trivial = an interval hit by >=2 requests "
             "or a compressible interval of >=200 records, distinct by (timeframe, schema, record list)",
        assumptions=["system and configured time zone UTC"],
    ),
    "C10": dict(
        test="TestC10", level="exploration", shards=16, exhaustive_thorough=True,
        tiers=dict(quick=dict(checks=1, timeout=600), thorough=dict(checks=1, timeout=3000)),
        rule="enumeration of encode(GetIntervalTicks32Bit)/decode(GetTimeFromTicks) round trips: 1Sec every ns offset "
             "of an interval (thorough: all 10^9, quick: stride 997 plus dense edges) for 4 interval positions; every "
             "other on-disk timeframe x 4 interval positions (first/last of a year, leap day, mid-year): stratified "
             "tick boundaries k*interval/2^32 +-2 ns, every whole-second edge +-6 ns, dense 3000-ns windows, uniform "
             "samples; non-trivial = offset within 2 ns of a tick boundary (distinct k by construction) or in the last "
             "8 ns of a second in a dense 1Sec pass",
        assumptions=["exhaustive only for the 1Sec offsets in the thorough tier; other timeframes are sampled densely"],
        technique="exhaustive/stratified enumeration of the round trip against an arithmetic oracle",
    ),
    "C11": dict(
        test="TestC11", level="exploration", shards=16,
        tiers=dict(quick=dict(checks=40, timeout=600), thorough=dict(checks=2500, timeout=3000)),
        rule="rapid stored histories (fixed and variable, all timeframes, 1-3 years) x 4-12 (start,end) pairs at ns "
             "precision drawn from stored times +-{0,1ns,1 tick}, interval and year edges, far before/after, 10% possibly "
             "inverted; oracle = filter of the server's own all-time result by the property's definition of in-range; "
             "non-trivial = partial result with a bound strictly inside a populated interval, distinct by (history, range)",
        assumptions=["time zone UTC", "the unrestricted query itself is checked by C08/C09"],
        technique="metamorphic property-based testing (ranged query vs filter of unrestricted query)",
    ),
    "C12": dict(
        test="TestC12", level="exploration", shards=16,
        tiers=dict(quick=dict(checks=40, timeout=600), thorough=dict(checks=2500, timeout=3000)),
        rule="rapid stored histories (fixed and variable, gaps, 1-3 year files) x 3-8 (range, N, direction, entry point) "
             "tuples with N in {1,2,3,count-1,count,count+1,10*count+1,count/2}; oracle = first/last N rows of the same "
             "query without a limit; non-trivial = N < rows in range and the range spans >=2 year files or has a gap, "
             "distinct by (history, range, N, direction)",
        assumptions=["time zone UTC", "the unlimited ranged query itself is checked by C11"],
        technique="metamorphic property-based testing (limited query vs prefix/suffix of unlimited query)",
    ),
    "C14": dict(
        test="TestC14", level="exploration", shards=16,
        tiers=dict(quick=dict(checks=80, timeout=600), thorough=dict(checks=4000, timeout=3000)),
        rule="(stratified) every ordered pair (sent type, bucket type) of the ten numeric wire types x the edge values of the sent "
             "type, written and read back; (random) rapid (bucket schema, input schema) pairs: edits none/reorder/retype (all numeric wire types)/drop/add/"
             "rename/case applied to one of 1-4 buckets of a single WriteCSM request, fixed and variable buckets, value "
             "classes min/max/0/fractions/huge; oracle: name mismatch => error and no bucket of the request changes "
             "(immediately and after the next unrelated flush); name match => values read back under the same names, "
             "converted by Go numeric conversion (out-of-range float->int not asserted); non-trivial = mismatch in a "
             "multi-bucket request, or a retyped/reordered accepted write",
        assumptions=["float->integer conversion outside the target range is implementation-defined in Go and only counted"],
    ),
    "C01": dict(
        test="TestC01", level="fault_enumeration", shards=16, cmds=["mkwork", "mkrestart"], engine="crash-engine",
        tiers=dict(quick=dict(checks=1, timeout=900), thorough=dict(checks=8, timeout=3400, env=dict(VERIF_MAXOPS=12))),
        rule="rapid histories (sync mode, 2-3 buckets fixed/variable x 1Min/1H/1D/1Sec, two years, repeated intervals, "
             "multi-bucket requests, explicit checkpoints) executed by the real server under strace; EVERY prefix of the "
             "file-mutating system calls is re-materialised and restarted in a fresh process through the production "
             "start-up path; oracle: every acknowledged write visible (fixed: last acknowledged value or a later issued "
             "one; variable: present); evaluations = restarts; non-trivial = crash points where recovery had work "
             "(an acknowledged write not covered by a checkpoint, or a write in flight), distinct by (history, k)",
        assumptions=["process-crash model: completed system calls are durable, no call is torn",
                     "the strace log order of calls is the order of their effects (single writer goroutine in sync mode)"],
        technique="exhaustive crash-point enumeration of strace-recorded runs of generated histories, model oracle",
        env=dict(VERIF_SHRINK="5s"),
    ),
    "C02": dict(
        test="TestC02", level="fault_enumeration", shards=16, cmds=["mkwork", "mkrestart"], engine="crash-engine",
        tiers=dict(quick=dict(checks=1, timeout=900), thorough=dict(checks=8, timeout=3400, env=dict(VERIF_MAXOPS=12))),
        technique="exhaustive crash-point enumeration of strace-recorded runs of generated histories, model oracle",
        env=dict(VERIF_SHRINK="5s"),
        assumptions=["process-crash model: completed system calls are durable, no call is torn",
                     "the strace log order of calls is the order of their effects (single writer goroutine in sync mode)"],
        rule="as C01 (every syscall-prefix crash point of strace-recorded generated histories, fresh-process restart), "
             "generator biased to variable-length buckets and explicit checkpoints; every row carries a unique tag; "
             "oracle: every returned row is a row of an issued write with its value, each variable-length record at most "
             "once, the in-flight transaction all-or-nothing across its buckets; non-trivial = crash points after the "
             "first primary write of a transaction with variable-length records and before the covering checkpoint",
    ),
    "C03": dict(
        test="TestC03", level="fault_enumeration", shards=16, cmds=["mkwork", "mkrestart"], engine="crash-engine",
        tiers=dict(quick=dict(checks=1, timeout=900), thorough=dict(checks=8, timeout=3400, env=dict(VERIF_MAXOPS=12))),
        technique="exhaustive crash-point enumeration of strace-recorded runs of generated histories, model oracle",
        env=dict(VERIF_SHRINK="5s"),
        assumptions=["process-crash model: completed system calls are durable, no call is torn",
                     "the strace log order of calls is the order of their effects (single writer goroutine in sync mode)"],
        rule="as C01, generator biased to repeated writes to the same variable-length interval (in-place rewrites); "
             "oracle: restart exits 0 without panic and every bucket whose creating write was acknowledged answers an "
             "all-time query; non-trivial = crash points strictly inside a primary-file write sequence",
    ),
    "C04": dict(
        test="TestC04", level="fault_enumeration", shards=16, cmds=["mkwork", "mkrestart"], engine="crash-engine",
        tiers=dict(quick=dict(checks=1, timeout=900), thorough=dict(checks=3, timeout=3400, env=dict(VERIF_MAXOPS=9, VERIF_MAXVARIANTS=12))),
        technique="crash-point x power-loss-variant enumeration over strace-recorded runs of generated histories",
        env=dict(VERIF_SHRINK="5s"),
        rule="strace-recorded generated histories (as C01) x every syscall-prefix crash point x a bounded set of "
             "power-loss variants of the data writes not yet covered by fsync(file)/sync(): drop all, drop primary only, "
             "drop WAL only, drop each single write, keep only the first j, tear the last write of a file at 512-byte "
             "boundaries, random subsets (quick: <=3 per point, thorough: <=12); metadata operations are never dropped; "
             "oracle: restart succeeds and every acknowledged write is recovered (duplicates allowed); non-trivial = the "
             "variant loses or tears a write belonging to an acknowledged request",
        assumptions=["power-loss model: only file DATA written after the file's last fsync / the last sync() can be lost "
                     "or torn at sector granularity; creates, renames, size changes and unlinks persist in order",
                     "bounded variant enumeration per crash point"],
    ),
    "C06": dict(
        fuzz=dict(target="FuzzC06", seconds=600),
        test="TestC06", level="exploration", shards=16, cmds=["mkwork", "mkrestart"], engine="crash-engine",
        tiers=dict(quick=dict(checks=2, timeout=900), thorough=dict(checks=20, timeout=3400, env=dict(VERIF_MUTATIONS=30))),
        technique="structured mutation fuzzing of real WAL files, fresh-process replay, model oracle",
        env=dict(VERIF_SHRINK="5s"),
        rule="a valid WAL is produced by really executing a generated history with repeated intervals (state: WAL synced, primary files not yet "
             "written); rapid draws byte-level mutations biased to record and field boundaries: truncate, 1-3 bit flips, "
             "overwrite/insert garbage runs, duplicate a record, swap two records, corrupt a length field (negative, "
             "tiny, huge), checksum-valid adversarial contents (WT count, path length, data length, path, record type); "
             "a fresh process performs the production start-up replay; oracle: exit 0 without panic/hang, no tag of a "
             "transaction whose data bytes changed appears, every intact committed transaction ending before the first "
             "changed byte is applied (its value is in the bucket, or that of a later undamaged transaction to the same fixed-length "
             "interval: re-application follows commit order); non-trivial = mutation that changes a TGDATA record or a length/ordering",
        assumptions=["one transaction group per write request (sync mode) so that WAL byte ranges map to requests"],
    ),
    "C35": dict(
        test="TestC35", level="exploration", shards=16, cmds=["mkwork", "mkrestart"], engine="crash-engine",
        tiers=dict(quick=dict(checks=2, timeout=900), thorough=dict(checks=20, timeout=3400, env=dict(VERIF_MAXOPS=12))),
        technique="property-based testing over generated histories x every shutdown position, fresh-process restart, differential + model oracle",
        env=dict(VERIF_SHRINK="5s"),
        rule="rapid histories (fixed/variable buckets, repeated intervals, multi-bucket requests) run by a real server with "
             "the background WAL writer (production timers 500ms/5min or short ones 1-5ms/3-20ms, rotation 1-5, optional "
             "sleeps so that timer flushes/checkpoints/rotations interleave) x graceful Shutdown() after op k for EVERY k; "
             "oracle: dump taken in-process just before the shutdown == dump of a fresh-process restart == model (every "
             "acknowledged write, no variable-length record twice), second restart identical; non-trivial = shutdown "
             "position with >=2 writes and variable-length data, distinct by history prefix",
        assumptions=["schedule of the background writer is sampled, not controlled"],
    ),
    "C34": dict(
        test="TestC34", level="fault_enumeration", shards=16, cmds=["mkwork", "mkrestart"], engine="crash-engine",
        tiers=dict(quick=dict(checks=1, timeout=900, env=dict(VERIF_L1POINTS=3)), thorough=dict(checks=3, timeout=3400, env=dict(VERIF_MAXOPS=8, VERIF_L1POINTS=8))),
        technique="two-level crash-point enumeration (crash during the recovery of a crash) over strace-recorded runs",
        env=dict(VERIF_SHRINK="5s"),
        rule="first level: crash states of strace-recorded generated histories at points where replay has work (plus "
             "synthetic empty / 5-byte left-over WAL files and a *.walfile.tmp file set aside by an earlier start-up, which must stay untouched); the production start-up on such a state is itself traced and "
             "EVERY prefix of its mutating system calls is materialised and restarted again (left-over WALs: crashed "
             "mid-replay, already replayed, two at once), then restarted once more; oracle: C01/C02 relations after the "
             "final restart, exactly one WAL (the instance's own) and no .tmp after every completed start-up, own WAL "
             "never unlinked/renamed, no left-over WAL unlinked while a replayed primary write is unsynced, a further "
             "restart changes nothing; non-trivial = second-level crash between REPLAYINPROCESS and REPLAYED",
        assumptions=["process-crash model at both levels", "first-level points inside the KF-03a window are not used"],
    ),
    "C05": dict(
        test="TestC05", level="fault_enumeration", shards=16, cmds=["mkwork", "mkrestart"], engine="crash-engine",
        tiers=dict(quick=dict(checks=1, timeout=900), thorough=dict(checks=6, timeout=3400, env=dict(VERIF_MAXOPS=7, VERIF_STRIDE=1))),
        technique="history invariants over strace-recorded runs of the real WAL writer loop + crash-prefix enumeration",
        env=dict(VERIF_SHRINK="5s"),
        rule="rapid histories run by the real server with the background WAL writer (SyncWAL) and short timers (WAL refresh "
             "1-5ms, checkpoint 2-10ms, rotation every 1-3 checkpoints), 1-3 writer goroutines, sleeps, optional graceful "
             "shutdown, recorded with strace; on every trace the protocol invariants P1 (primary write only after the WAL "
             "fsync), P2 (ACK only after the fsync covering the request's transaction group), P3 (checkpoint complete only "
             "after sync()), P4 (WAL truncated only when fully checkpointed), P5 (TGIDs increase); P6 on crash prefixes "
             "(quick: every 3rd, thorough: all): acknowledged requests recovered and the shared witness slot shows a "
             "transaction not earlier in commit order than any acknowledged one; non-trivial = crash points of traces "
             "containing a rotation, a checkpoint or a transaction group carrying several requests",
        assumptions=["schedules of the WAL writer loop are sampled (recorded, not controlled)", "process-crash model"],
    ),
    "C27": dict(
        test="TestC27", level="exploration", shards=16,
        tiers=dict(quick=dict(checks=300, timeout=600), thorough=dict(checks=30000, timeout=3000)),
        rule="rapid datasets of 1-6 buckets sharing a schema (1-5 columns over all 11 wire types, optional Nanoseconds, "
             "lengths 0-2000 incl. zero, raw bit patterns; 10%: one bucket with the same names but a different type) "
             "through NewNumpyDataset -> NewNumpyMultiDataset/Append -> msgpack Marshal/Unmarshal -> ToColumnSeriesMap "
             "(write-request side) or MultiQueryResponse.ToColumnSeriesMap (client side); oracle: same buckets, names, "
             "order, Go types, bytes (different-type class: clean error or faithful); non-trivial = >=2 buckets of "
             "different lengths",
        assumptions=["byte comparison with the harness's own little-endian encoder"],
        technique="round-trip property-based testing",
    ),
    "C28": dict(
        test="TestC28", level="exploration", shards=16,
        tiers=dict(quick=dict(checks=150, timeout=600), thorough=dict(checks=15000, timeout=3000)),
        rule="rapid lists of 1-5 write commands of the shape the write path produces (fixed/variable, key paths with "
             "components up to 1300 bytes, 1-300 columns with names up to 32 bytes over all wire types (one command in three repeats "
             "its predecessor's column names: same schema, some element types changed, one column more or fewer), payloads 0 B-1 MB, "
             "arbitrary offset/index) through the real WALFileType.FlushCommandsToWAL (serializeTG), captured by a "
             "recording ReplicationSender, decoded by ParseTGData; oracle: target file, record type, varRecLen, offset, "
             "index, payload and column schema identical; non-trivial = >=2 commands or >=128 columns or a name >=20 bytes",
        assumptions=["column names longer than 32 bytes are outside the domain: such buckets cannot be created (C15)"],
        technique="round-trip property-based testing",
    ),
    "C30": dict(
        test="TestC30", level="exploration", shards=16,
        tiers=dict(quick=dict(checks=1, timeout=600), thorough=dict(checks=1, timeout=3000)),
        rule="8 configured zones (UTC, New_York, Tokyo, Kolkata, Lord_Howe, Moscow, Sao_Paulo, London) x all on-disk "
             "timeframes: timestamps 1990-2040 (one third within 2 slots of a year edge or of a DST/offset transition "
             "found by scanning the zone) checked for slot containment, same year, TimeToIndex(IndexToTime)=id and "
             "Headersize <= offset <= FileSize-recordLength; plus full sweeps of every slot of (zone, timeframe>=1Min, "
             "year) triples: index->time->index, strictly increasing slot starts; non-trivial = timestamps near a year "
             "edge or transition (random draws, counted) and each full-year sweep",
        assumptions=["process time zone (time.Local) is UTC, as in the server's default deployment"],
        technique="stratified enumeration + randomized search against arithmetic oracles",
    ),
    "C31": dict(
        test="TestC31", level="exploration", shards=16,
        tiers=dict(quick=dict(checks=5000, timeout=600), thorough=dict(checks=500000, timeout=3000)),
        rule="rapid candle strings <1-9999><Sec|Min|H|D|W|M|Y> (multiplier 1 and D favoured) x timestamps (chosen local hours 0-3, 12, "
             "21-23 of the day before, of and after every UTC-offset transition of the zone 2009-2023 found by scanning; within +-25h of DST switches, year edges, "
             "leap day, Sunday/Monday boundaries, or uniform 1990-2040) x 8 zones; oracle: Truncate(t) <= t < Ceil(t), "
             "IsWithin(t, Truncate(t)), QueryableTimeframe divides the duration, string -> Timeframe -> "
             "TimeframeFromDuration -> string -> Timeframe keeps the duration; non-trivial = timestamp within 26h of a "
             "UTC-offset change or on the first/last day of a year",
        technique="property-based testing with arithmetic oracles",
    ),
    "C21": dict(
        test="TestC21", level="exploration", shards=16,
        tiers=dict(quick=dict(checks=300, timeout=600), thorough=dict(checks=30000, timeout=3000)),
        rule="rapid row sets (1-500 rows over 1-20 windows, shuffled, ns offsets incl. window edges, prices incl. "
             "negative/MaxFloat32/Inf/ties, integer volumes) x candle timeframes 1Sec..1D incl. non-divisors of a day "
             "(90Sec, 7Min) through AggRunner.Run with TickCandler(tf, Price, Sum::V, Avg::V) or CandleCandler(tf, "
             "Open, High, Low, Close, Sum::Volume); oracle: independent grouping by window start, one candle per "
             "non-empty window in time order, open/close from an earliest/a latest row, extremes, exact sums/averages; "
             "for distinct timestamps OHLC invariant under a drawn permutation; non-trivial = >=2 windows and a window "
             "with >=3 rows out of time order",
        assumptions=["configured zone UTC (D candles = UTC calendar days)", "no NaN prices (extremes undefined)"],
        technique="property-based testing against a reference implementation + metamorphic permutation",
    ),
    "C22": dict(
        test="TestC22", level="exploration", shards=16,
        tiers=dict(quick=dict(checks=200, timeout=600), thorough=dict(checks=20000, timeout=3000)),
        rule="rapid row sets (as C21; equal timestamps carry equal prices) x every ordered pair (fine, coarse) of candle "
             "timeframes 1Sec..1D with fine | coarse; oracle (metamorphic): OHLC of CandleCandler(coarse) applied to "
             "TickCandler(fine) == OHLC of TickCandler(coarse) on the rows; non-trivial = a coarse window containing >=2 "
             "non-empty fine windows",
        assumptions=["configured zone UTC"],
        technique="metamorphic property-based testing",
    ),
    "C23": dict(
        test="TestC23", level="exploration", shards=16,
        tiers=dict(quick=dict(checks=400, timeout=600), thorough=dict(checks=50000, timeout=3000)),
        rule="rapid columns of every numeric wire type (length 0-1000, raw bit patterns / float classes) through "
             "AggRunner.Run count(V)/min(V)/max(V)/avg(V), and epoch sequences with steps equal to, just below, just "
             "above and random around the threshold through gap('tf'); oracle: naive computation over float32(v) (avg in "
             "float64 with n*1e-12 relative tolerance), gaps == consecutive pairs with difference > threshold; for n=0 "
             "only count and absence of a panic; non-trivial = n>=2 with the extreme not in first position / >=1 gap and "
             ">=1 non-gap",
        technique="property-based testing against a naive reference",
    ),
    "C33": dict(
        fuzz=dict(target="FuzzC33", seconds=300),
        test="TestC33", level="exploration", shards=16,
        tiers=dict(quick=dict(checks=150, timeout=600), thorough=dict(checks=10000, timeout=3000)),
        rule="rapid CSV files over a generated bucket schema (1-4 numeric columns, 1-400 rows, header row, time zone "
             "UTC/Tokyo/New_York, optional valid quoting and blank lines) with at most one injected fault (fewer/more "
             "fields, unparsable or empty number, unparsable time, bare quote, unbalanced quote) at any row and column, "
             "imported through the real \\load command (hook VerifLoad, fake API client recording Write requests) or "
             "through the loader loop with chunk sizes 1-1000; oracle: an error is returned, or the concatenation of the "
             "written datasets equals all data rows with the values and epochs the file states; a panic is a violation; "
             "non-trivial = a fault located after at least one valid row",
        technique="property-based testing with fault injection, round-trip oracle",
    ),
    "C13": dict(
        test="TestC13", level="exploration", shards=16,
        tiers=dict(quick=dict(checks=40, timeout=600), thorough=dict(checks=2000, timeout=3000)),
        rule="rapid stores of 2-5 symbols sharing timeframe/group/schema (1-4 columns over all wire types, fixed or "
             "variable; 1/8: last symbol with one retyped column or the same columns in another order) x 2-6 DataService.Query requests with symbol lists of "
             "existing, missing and repeated names or '*', and column lists of subsets in any order, unknown names, "
             "duplicates and Epoch; oracle: per requested existing symbol the same rows as its single-symbol all-time "
             "query, only requested existing columns (+ time columns) with identical types and bytes, missing symbols "
             "contribute nothing, mixed schema: faithful or a clean error; non-trivial = >=2 symbols with different row "
             "counts, or a projection",
        assumptions=["the single-symbol unprojected query is checked by C08/C09"],
        technique="differential property-based testing (multi/projected query vs single query)",
    ),
    "C19": dict(
        test="TestC19", level="exploration", shards=16,
        tiers=dict(quick=dict(checks=30, timeout=600), thorough=dict(checks=2000, timeout=3000)),
        rule="rapid stored histories (fixed and variable, i4/i8/f4/f8 columns, small value range so that literals tie "
             "with stored values, times incl. sub-second offsets and a year edge) x 3-10 statements SELECT * FROM `b` "
             "WHERE c1 AND .. ck (k<=3), ci over Epoch (datetime string in the five accepted layouts, epoch seconds, epoch "
             "nanoseconds) and value columns x {<,<=,>,>=,=,BETWEEN}, literals on/between/outside stored values, executed "
             "by BuildQueryTree -> NewExecutableStatement -> Materialize; oracle: naive filter of the server's own "
             "SELECT * (Epoch at full precision, columns in their own precision, BETWEEN strict), same order; "
             "non-trivial = result neither empty nor everything",
        assumptions=["non-negative literals (the grammar's literal forms)", "time zone UTC"],
        technique="differential property-based testing (SQL WHERE vs naive filter of SELECT *)",
    ),
    "C20": dict(
        test="TestC20", level="exploration", shards=16,
        tiers=dict(quick=dict(checks=30, timeout=600), thorough=dict(checks=2000, timeout=3000)),
        rule="rapid stored histories (as C19) x 2-6 statements SELECT <permuted subset of columns, each optionally AS "
             "alias, optionally Epoch> FROM `b` [WHERE 1-2 conditions of C19's grammar] [LIMIT n] with n in {1,2,count-1,count,count+1}, and "
             "one INSERT INTO `t` SELECT * FROM `b` [WHERE Epoch range] into a bucket of the same schema and an equal or "
             "coarser timeframe; oracle: output has exactly the selected columns under alias-or-name (+ time columns) "
             "with the values of the server's own SELECT *, LIMIT n = first n rows of the filtered result, target bucket "
             "= selected rows re-slotted to its timeframe (last row per interval wins), source unchanged; non-trivial = "
             "alias together with a LIMIT below the row count, or an INSERT whose rows collapse into fewer intervals",
        assumptions=["time zone UTC", "INSERT uses the instance-wide writer (executor.ThisInstance)"],
        technique="differential property-based testing against the server's own SELECT *",
    ),
    "C25": dict(
        test="TestC25", level="exploration", shards=16,
        tiers=dict(quick=dict(checks=40, timeout=600), thorough=dict(checks=3000, timeout=3000)),
        rule="rapid write histories on a master instance (1-4 buckets, fixed and variable, all timeframes and wire types, "
             "1-6 requests per writer naming 1-2 buckets, possibly one fixed and one variable in the same transaction group; one case "
             "in three: 2-3 concurrent writers with the background WAL writer so that a flushed group carries several requests); every "
             "transaction group the master's ReplicationSender receives is applied to a second instance by the production "
             "replayer (replication.NewReplayer(executor.ParseTGData, writer.WriteCSM, root)); oracle: every bucket's "
             "all-time (and a ranged) query returns the same rows on both, variable-length times at most one resolution "
             "step earlier on the replica; non-trivial = a variable bucket with interval > 1s, or a transaction group "
             "mixing record types",
        assumptions=["the network transport (gRPC stream) is not exercised: C26 covers the fan-out"],
        technique="differential property-based testing (replica vs master)",
    ),
    "C32": dict(
        test="TestC32", level="exploration", shards=16,
        tiers=dict(quick=dict(checks=60, timeout=600), thorough=dict(checks=3000, timeout=3000)),
        rule="rapid sets of 1-4 recording triggers with On patterns of three components from {*, literal} and 2-6 buckets "
             "whose names overlap as prefixes/suffixes and contain regexp metacharacters (AA, XAA, AAX, A.A, AxA, AA+; OHLC "
             "vs OHLCV), fixed and variable, x 1-6 write requests per writer (1 writer in sync mode, or 2-4 concurrent writers with the background WAL "
             "writer) naming 1-2 buckets, rows spanning two years; oracle: the "
             "multiset of (trigger, file path, interval index, payload) delivered == the multiset expected from the "
             "documented rule ('*' = one path component, the rest literal, pattern is a prefix of the path), indices "
             "computed independently; non-trivial = >=2 triggers with different match sets and a transaction touching "
             ">=2 files",
        assumptions=["one case in three runs 2-4 concurrent writers with the background WAL writer (several requests per flushed "
                     "transaction); schedules are sampled, the multiset oracle does not depend on them"],
        technique="property-based testing against a reference model of the documented matching rule",
    ),
    "C24": dict(
        test="TestC24", level="exploration", shards=16,
        tiers=dict(quick=dict(checks=40, timeout=600), thorough=dict(checks=2000, timeout=3000)),
        rule="instance with the real aggtrigger.NewTrigger on */1Min/OHLCV and 1-3 destinations from {5Min,15Min,1H,1D}; "
             "rapid histories of 1-7 requests of 1-8 one-minute bars over two days (clustered near window and day "
             "boundaries): appends, out-of-order requests, corrections of existing bars; the harness waits for each Fire "
             "to return before the next write; oracle: every destination bucket == per-window aggregation of the base "
             "bucket's current content (first open, max high, min low, last close, sum volume), one bar per window with "
             "base bars; non-trivial = history with a correction or an out-of-order bar",
        assumptions=["sequential histories; rows inside one request are in time order (the trigger takes the first and "
                     "last record of a request as its time span)", "time zone UTC"],
        technique="model-based property-based testing (destination buckets vs re-aggregation of the base bucket)",
    ),
    "C15": dict(
        test="TestC15", level="exploration", shards=16, cmds=["mkinfo"],
        tiers=dict(quick=dict(checks=12, timeout=600), thorough=dict(checks=400, timeout=3000)),
        rule="rapid DataService.Create requests: 1-1100 columns, names of 0-80 bytes (ASCII, multi-byte, spaces, empty), "
             "all wire types, timeframes 1Min-1D, both record types, class wide-1D (61-80 U16 columns whose Jan-1 record "
             "would reach back into the header), followed by 0-3 writes incl. the first interval of the year and the "
             "previous year; oracle: the create is rejected (only when the schema cannot be stored: name > 32 bytes or "
             "empty, > 1024 columns), or a FRESH server process reports exactly the created names, types, timeframe and "
             "record type (GetInfo), accepts a write with that schema and rejects one with another column name; "
             "non-trivial = name > 32 bytes, multi-byte name, > 256 columns, or wide-1D with a Jan-1 write",
        assumptions=["a log.Fatal or panic of the fresh process is a violation"],
        technique="property-based testing with a fresh-process restart, round-trip oracle",
    ),
    "C16": dict(
        test="TestC16", level="exploration", shards=16, cmds=["jailworker"],
        tiers=dict(quick=dict(checks=60, timeout=600), thorough=dict(checks=1000, timeout=3400)),
        rule="rapid sequences of 1-8 DataService requests (Create, Write, Query, GetInfo, Destroy; consecutive requests "
             "often reuse a key, e.g. create-then-destroy) whose keys are assembled from components {.., ., empty, ~, "
             "backslash, names with spaces, unicode, 300-byte names, ..., the names of the directories around the data root and names sharing a prefix with the root (root, root2, root.bak, other, l5), ordinary} in 1-6 item components with a valid "
             "timeframe at any position and default or custom category lists; executed by a worker process chroot'ed "
             "into a throw-away tree whose data root lies six directories deep beside decoys (one shaped like a "
             "marketstore directory); oracle: a recursive (path, type, size, SHA-1) snapshot of everything outside the "
             "data root is identical before and after; non-trivial = sequence containing a key whose lexically cleaned "
             "join with the root lies outside it",
        assumptions=["requires CAP_SYS_CHROOT (uid 0) as in this sandbox; a worker crash is counted, not asserted"],
        technique="structured fuzzing of key strings in a chroot jail, file-system snapshot oracle",
    ),
    "C07": dict(
        test="TestC07", level="exploration", shards=16,
        tiers=dict(quick=dict(checks=6, timeout=600), thorough=dict(checks=200, timeout=3000)),
        rule="rapid concurrent programs: 2-16 writer goroutines x 5-40 single-row writes to own or one shared bucket "
             "(fixed or variable), background WAL writer with production timers (500ms/5min) or short ones (1-5ms); "
             "immediately after each WriteCSM returns the writer (a) queries exactly the written interval and must see its "
             "uniquely tagged row, (b) re-reads the WAL file and must find the tag inside a complete, checksum-valid "
             "TGDATA record followed by its WAL COMMITCOMPLETE record (own parser); the fsync ordering of the same "
             "acknowledgements is checked on strace recordings by C05 (P2); non-trivial = programs in which some write "
             "was acknowledged from a transaction group that also carried other writers' data",
        assumptions=["schedules are sampled", "durability here = committed record present in the WAL file; the fsync "
                     "that precedes the acknowledgement is asserted from system-call traces in C05"],
        technique="generated concurrent programs with schedule-independent per-operation oracle",
    ),
    "C26": dict(
        test="TestC26", level="exploration", shards=16, race=True,
        tiers=dict(quick=dict(checks=8, timeout=900), thorough=dict(checks=150, timeout=3400)),
        rule="rapid concurrent programs on the real GRPCReplicationServer + Sender with fake stream objects (peer address in "
             "the context; Send can fail on demand = replica gone, or block = replica not reading): 1-6 streams opening and "
             "closing at generated message indices while the sender fans out 50-400 tagged messages (1200-2000 with a slow "
             "replica), built with the race detector; oracle: no panic/fatal error/data race, the fan-out finishes within "
             "20 s (the master does not block), every stream receives a gap-free in-order run of messages, a stream that "
             "stays connected receives everything from its connection to the last message; non-trivial = >=2 streams with a "
             "close overlapping the fan-out",
        assumptions=["schedules are sampled; the race detector reports races on executed paths only"],
        technique="generated concurrent programs under the Go race detector, schedule-independent oracle",
    ),
    "C17": dict(
        test="TestC17", level="exploration", shards=16, race=True,
        tiers=dict(quick=dict(checks=8, steps=30, timeout=900), thorough=dict(checks=100, steps=40, timeout=3400)),
        rule="(sequential) rapid state-machine histories over 3 symbols x 2 timeframes x 2 attribute groups: create "
             "(3 schemas, fixed/variable), write (existing year, new year, or first write that creates the bucket), write with "
             "another schema (must be rejected), destroy, recreate, reopen of the server; after EVERY step the live catalog "
             "(GatherTimeBucketInfo, ListSymbols tbk and symbol), the */*/*/YYYY.bin files on disk, a fresh "
             "catalog.NewDirectory on the same root and the model agree, every listed bucket answers an all-time query "
             "with the model's rows and GetInfo reports the model's schema, unlisted keys do not answer; (concurrent) rapid "
             "programs of 2-6 goroutines x 4-30 create/write(6 years)/query/list[/destroy] operations on 2-8 keys with the "
             "background WAL writer, built with the race detector: no panic, no data race, at quiescence live catalog == "
             "disk == fresh catalog == listing and every listed bucket answers; without destroys every acknowledged write "
             "is listed and returned; non-trivial = sequential history with a destroy-then-recreate and a new-year write, "
             "or concurrent program in which a create under symbol S overlaps another goroutine's write to a different "
             "bucket of S",
        assumptions=["concurrent schedules are sampled; the race detector reports races on executed paths only",
                     "wall-clock year of the sandbox is the year DataService.Create gives a new bucket's first file"],
        technique="model-based stateful property-based testing (rapid state machine) + generated concurrent programs under the Go race detector",
    ),
    "C18": dict(
        test="TestC18", level="exploration", shards=16, race=True,
        tiers=dict(quick=dict(checks=3, timeout=900), thorough=dict(checks=120, timeout=3400)),
        rule="rapid concurrent programs built with the race detector: 2-6 writer goroutines x 20-120 single-row writes "
             "over two fixed buckets and one variable-length bucket (6 intervals each, so writers collide; one write in eight goes to the same interval of one of four later years, creating year files on the fly), 1-4 reader "
             "goroutines running all-time queries throughout, background WAL writer with 1-4ms flush, 5-40ms checkpoint "
             "and rotation every 1-3 checkpoints; every column of a row carries the same tag; oracle: no panic, no data "
             "race, no query error, every row returned to any reader is a whole row of an issued write to that "
             "bucket/interval, finally every variable-length record exactly once and every written fixed interval "
             "present; non-trivial = programs in which a reader read the variable-length bucket while it was written",
        assumptions=["schedules are sampled; the race detector reports races on executed paths only"],
        technique="generated concurrent programs under the Go race detector, schedule-independent oracle",
    ),
}
