"""Registry of checks: one entry per property (see DESIGN.md section 5)."""

CHECKS = {
    "C29": dict(
        test="TestC29", level="exploration", shards=16,
        tiers=dict(quick=dict(checks=400, timeout=300), thorough=dict(checks=40000, timeout=2400)),
        rule="rapid-generated column series (1-40 columns over all 11 wire types, 0-500 rows, raw bit patterns, "
             "align on/off, writer path ToRowSeries or reader path NewRowSeries(FIXED)); non-trivial = align=true "
             "with an unaligned record length and >=1 row, distinct by (schema, rows, data hash)",
        assumptions=["round trip compared byte for byte with the harness's own little-endian encoder"],
    ),
    "C08": dict(
        test="TestC08", level="exploration", shards=16,
        tiers=dict(quick=dict(checks=40, timeout=600), thorough=dict(checks=2500, timeout=3000)),
        rule="rapid histories of 1-8 write requests (1-300 rows, unsorted, repeated slots, 1-3 years incl. first/last "
             "slot of a year and leap day, all on-disk timeframes, 1-5 columns over all wire types) against an "
             "in-memory last-writer-wins model, checked after every request; non-trivial = >=1 overwritten slot and "
             ">=2 year files, distinct by (timeframe, schema, final model state)",
        assumptions=["system and configured time zone UTC", "model slot arithmetic: floor(epoch/tf)*tf"],
    ),
}
