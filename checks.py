"""Registry of checks: one entry per property (see DESIGN.md section 5)."""

CHECKS = {
    "C29": dict(
        test="TestC29", level="exploration", shards=16,
        tiers=dict(quick=dict(checks=400, timeout=300), thorough=dict(checks=40000, timeout=2400)),
        rule="rapid-generated column series (1-40 columns over all 11 wire types, 0-500 rows, raw bit patterns, "
             "align on/off, writer path ToRowSeries or reader path NewRowSeries(FIXED)); non-trivial = align=true "
             "with an unaligned record length and >=1 row, distinct by (schema, rows, data hash)",
        assumptions=["round trip compared byte for byte with the harness's own little-endian encoder"],
    ),
}
