#!/usr/bin/env python3
"""Regenerates MANIFEST.json from checks.py (claimed checks) and properties.jsonl."""
import json, os, subprocess
HERE = os.path.dirname(os.path.abspath(__file__))
from checks import CHECKS
props = [json.loads(l)["id"] for l in open(os.path.join(HERE, "properties.jsonl"))]
try:
    hooks = [l.split()[0] for l in subprocess.run(["git", "-C", "/repo", "log", "--format=%h %s", "--grep=^verif hook"],
             capture_output=True, text=True).stdout.splitlines()]
except Exception:
    hooks = []
checks = []
for pid in props:
    c = CHECKS.get(pid)
    if not c or c.get("unclaimed"):
        continue
    checks.append(dict(
        property_id=pid,
        quick_cmd="python3 run.py %s --tier quick" % pid,
        thorough_cmd="python3 run.py %s --tier thorough" % pid,
        evidence_file="/verif/evidence/%s.json" % pid,
        replay_cmd_template="python3 run.py %s --replay {path}" % pid,
        engine=c.get("engine", "rapid"),
        level_claimed=dict(category=c["level"], text=c.get("level_text", c["rule"]), design_ref=c.get("design_ref", "DESIGN.md section 5, " + pid)),
        level_note=c.get("level_note", "; ".join(c.get("assumptions", [])) or "generated search only: no claim of absence"),
        technique=c.get("technique", "property-based testing (rapid) against an explicit oracle"),
    ))
na = [dict(property_id=p, reason=CHECKS.get(p, {}).get("unclaimed", "check not built yet (work in progress)"))
      for p in props if p not in CHECKS or CHECKS[p].get("unclaimed")]
m = dict(
    version=1,
    setup_cmd="python3 run.py --setup",
    hooks=dict(guard="verif", enable="go build/test -tags verif (run.py passes it to every build)",
               baseline_off_cmd="python3 /verif/baseline.py", source_commits=hooks, add_only=True),
    engines=[
        dict(name="rapid-props", path="harness/props", kind_free_text="property-based tests (pgregory.net/rapid v1.3.0): generators, reference model (harness/hx) and oracles; sharded over 16 processes by run.py with PRNG values derived from VERIF_SEED",
             serves_properties=[c["property_id"] for c in checks]),
        dict(name="crash-engine", path="harness/crashfs", kind_free_text="strace recording of the real server executing a generated history (cmd/mkwork), parser and crash-state materialiser "
             "(every system-call prefix, power-loss variants), fresh-process restart through the production start-up path (cmd/mkrestart)",
             serves_properties=[p for p in props if CHECKS.get(p, {}).get("engine") == "crash-engine"]),
        dict(name="race-detector", path="harness/props", kind_free_text="generated concurrent programs built with go test -race; schedule-independent oracles; log.Fatal of the server turned into an attributable panic",
             serves_properties=[p for p in props if CHECKS.get(p, {}).get("race")]),
        dict(name="native-fuzz", path="harness/props", kind_free_text="go test -fuzz targets with semantic oracles (FuzzC06, FuzzC33): seeds and committed corpus in every tier, coverage-guided fuzzing in the thorough tier",
             serves_properties=[p for p in props if CHECKS.get(p, {}).get("fuzz")]),
        dict(name="chroot-jail", path="harness/cmd/jailworker", kind_free_text="worker process chroot'ed into a throw-away tree executes requests with hostile keys; file-system snapshot oracle",
             serves_properties=["C16"]),
    ],
    checks=checks,
    not_applicable=na,
    notes="All checks: python3 run.py <ID> --tier quick|thorough; VERIF_SEED selects the PRNG values; exit 2 = inconclusive/infrastructure.",
)
json.dump(m, open(os.path.join(HERE, "MANIFEST.json"), "w"), indent=1)
print("claimed", len(checks), "not_applicable", len(na))
