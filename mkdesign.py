#!/usr/bin/env python3
"""Regenerates the generated tables of DESIGN.md (between BEGIN/END GENERATED markers) from
checks.py, known_findings.json and seeded/*/meta.json."""
import glob, json, os, re
HERE = os.path.dirname(os.path.abspath(__file__))
from checks import CHECKS


def findings():
    d = json.load(open(os.path.join(HERE, "known_findings.json")))
    out = ["| id | properties | status | what fails (shortened) |", "|---|---|---|---|"]
    for f in d["findings"]:
        st = f["status"] + (" " + f["fix_commit"] if f.get("fix_commit") else "")
        out.append("| %s | %s | %s | %s |" % (f["id"], " ".join(f["properties"]), st, f["what_fails"].replace("|", "/")[:230]))
    return "\n".join(out)


def checks():
    out = ["| property | engine / build | quick (cases per shard x 16 shards) | thorough | deciding technique |", "|---|---|---|---|---|"]
    for pid in sorted(CHECKS):
        c = CHECKS[pid]
        eng = c.get("engine", "rapid") + (" -race" if c.get("race") else "") + (" +native fuzz " + c["fuzz"]["target"] if c.get("fuzz") else "")
        q, t = c["tiers"]["quick"], c["tiers"]["thorough"]
        qs = "%d" % q["checks"] + (" x ~%d steps" % q["steps"] if q.get("steps") else "")
        ts = "%d" % t["checks"] + (" x ~%d steps" % t["steps"] if t.get("steps") else "") + (" + %d s fuzzing" % c["fuzz"]["seconds"] if c.get("fuzz") else "")
        out.append("| %s | %s | %s | %s | %s |" % (pid, eng, qs, ts, c.get("technique", "property-based testing (rapid) against an explicit oracle")))
    return "\n".join(out)


def seeded():
    out = ["| seeded change | property | what it does | needs to manifest | caught by (quick tier unless noted) |", "|---|---|---|---|---|"]
    for mp in sorted(glob.glob(os.path.join(HERE, "seeded", "*", "meta.json"))):
        m = json.load(open(mp))
        tag = os.path.basename(os.path.dirname(mp))
        out.append("| %s | %s | %s | %s | %s |" % (tag, m["property"], m.get("summary", "").replace("|", "/")[:260],
                                                  m.get("needs_to_manifest", "").replace("|", "/")[:200], m.get("caught_by_text", "?")))
    return "\n".join(out)


def main():
    p = os.path.join(HERE, "DESIGN.md")
    s = open(p).read()
    for name, fn in (("findings", findings), ("checks", checks), ("seeded", seeded)):
        pat = re.compile(r"(<!-- BEGIN GENERATED %s -->\n).*?(<!-- END GENERATED %s -->)" % (name, name), re.S)
        if pat.search(s):
            s = pat.sub(lambda m: m.group(1) + fn() + "\n" + m.group(2), s)
    open(p, "w").write(s)


if __name__ == "__main__":
    main()
