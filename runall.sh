#!/bin/bash
# runs every claimed check's quick tier (or $1 tier) once; prints a summary line per check
tier=${1:-quick}
seed=${VERIF_SEED:-1}
for id in $(python3 -c "import json;print(' '.join(c['property_id'] for c in json.load(open('/verif/MANIFEST.json'))['checks']))"); do
  start=$(date +%s)
  out=$(cd /verif && VERIF_SEED=$seed python3 run.py $id --tier $tier 2>&1)
  rc=$?
  echo "$id rc=$rc $(( $(date +%s) - start ))s $(echo "$out" | grep -c '^VIOLATION') violations; $(echo "$out" | grep "^$id $tier" | head -1)"
done
