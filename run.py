#!/usr/bin/env python3
"""Driver for every check in /verif.

  python3 run.py <ID> --tier quick|thorough     run the check of one property
  python3 run.py <ID> --replay <file>           re-run one saved failing case
  python3 run.py --setup                        warm the build cache (MANIFEST.setup_cmd)

Exit 0: property held on everything explored (KNOWN-FINDING lines possible)
Exit 1: "VIOLATION property=<ID> replay=<path>" printed
Exit 2: infrastructure trouble / time budget hit / vacuous run (never a violation)
"""
import argparse
import glob
import json
import os
import shutil
import subprocess
import sys
import tempfile
import time

HERE = os.path.dirname(os.path.abspath(__file__))
HARNESS = os.path.join(HERE, "harness")
REPO = os.environ.get("VERIF_REPO", "/repo")
# evidence and replay files belong to runs against /repo itself; a sensitivity run on a scratch
# copy (VERIF_REPO) writes them to a scratch directory instead
OUT = HERE if REPO == "/repo" else os.path.join("/dev/shm" if os.path.isdir("/dev/shm") else "/tmp", "verif-sensitivity-" + os.path.basename(REPO.rstrip("/")))
sys.path.insert(0, HERE)
from checks import CHECKS  # noqa: E402


def goenv():
    e = dict(os.environ)
    e.update(TZ="UTC", GOFLAGS="-mod=mod", GOPROXY="off", GOSUMDB="off", GOTOOLCHAIN="local",
             CGO_ENABLED=e.get("CGO_ENABLED", "1"))
    return e


def scratch_root():
    for d in ("/dev/shm", os.environ.get("TMPDIR", "/tmp")):
        if os.path.isdir(d) and os.access(d, os.W_OK):
            return d
    return "/tmp"


def harness_dir():
    """The harness module to build. With VERIF_REPO set (sensitivity runs on a
    scratch copy of the tree) a private copy of the module is made whose
    replace directive points there."""
    if REPO == "/repo":
        return HARNESS, None
    tmp = tempfile.mkdtemp(prefix="verif-h-", dir=scratch_root())
    dst = os.path.join(tmp, "harness")
    shutil.copytree(HARNESS, dst)
    gm = open(os.path.join(dst, "go.mod")).read().replace("=> /repo", "=> " + REPO)
    open(os.path.join(dst, "go.mod"), "w").write(gm)
    return dst, tmp


def ensure_gosum(hdir):
    gs = os.path.join(hdir, "go.sum")
    if not os.path.exists(gs):
        shutil.copy(os.path.join(REPO, "go.sum"), gs)


def build(hdir, outdir, race, cmds):
    """Build the props test binary (and helper commands) from the current tree."""
    ensure_gosum(hdir)
    t0 = time.time()
    binp = os.path.join(outdir, "props.test")
    args = ["go", "test", "-c", "-tags", "verif", "-vet=off", "-o", binp]
    if race:
        args.append("-race")
    args.append("./props")
    r = subprocess.run(args, cwd=hdir, env=goenv(), stdout=subprocess.PIPE, stderr=subprocess.STDOUT, text=True)
    if r.returncode != 0:
        print("BUILD FAILED (props):\n" + r.stdout[-4000:])
        return None
    for c in cmds:
        r = subprocess.run(["go", "build", "-tags", "verif", "-o", os.path.join(outdir, c), "./cmd/" + c],
                           cwd=hdir, env=goenv(), stdout=subprocess.PIPE, stderr=subprocess.STDOUT, text=True)
        if r.returncode != 0:
            print("BUILD FAILED (%s):\n%s" % (c, r.stdout[-4000:]))
            return None
    print("build: %.1fs" % (time.time() - t0))
    return binp


def shard_seed(seed, k):
    s = (seed * 1000003 + k * 7919 + 12345) & 0x7FFFFFFF
    return s or 1


def merge(frags):
    ev = dict(evaluations=0, ntcount=0, nt=set(), classes={}, samples=[], kf_seen={}, kf_what={}, excluded={}, extra={})
    for f in frags:
        try:
            d = json.load(open(f))
        except Exception:
            continue
        ev["evaluations"] += d.get("evaluations", 0)
        ev["nt"].update(d.get("nontrivial_hashes") or [])
        ev["ntcount"] += d.get("nontrivial_count", 0)
        for k, v in (d.get("classes") or {}).items():
            ev["classes"][k] = ev["classes"].get(k, 0) + v
        for k, v in (d.get("kf_seen") or {}).items():
            ev["kf_seen"][k] = ev["kf_seen"].get(k, 0) + v
        for k, v in (d.get("kf_what") or {}).items():
            ev["kf_what"].setdefault(k, v)
        for k, v in (d.get("excluded_by_finding") or {}).items():
            ev["excluded"][k] = ev["excluded"].get(k, 0) + v
        for k, v in (d.get("extra") or {}).items():
            ev["extra"][k] = ev["extra"].get(k, 0) + v
        for s in d.get("samples") or []:
            if len(ev["samples"]) < 6:
                ev["samples"].append(s)
    return ev


def write_evidence(pid, cfg, tier, seed, ev, wall, nviol, shards, notes):
    cov = dict(
        evaluations=int(ev["evaluations"]),
        distinct_nontrivial=len(ev["nt"]) + int(ev["ntcount"]),
        rule=cfg["rule"],
        samples=ev["samples"],
        classes=ev["classes"],
        excluded_by_finding=ev["excluded"],
        known_findings_observed=ev["kf_seen"],
        counters=ev["extra"],
        shards=shards,
        exhaustive=bool(cfg.get("exhaustive_" + tier, False)),
    )
    if notes:
        cov["notes"] = notes
    out = dict(property_id=pid, tier=tier, seed=int(seed), level=cfg["level"], coverage=cov,
               assumptions=cfg.get("assumptions", []), wall_s=round(wall, 2), violations=int(nviol))
    os.makedirs(os.path.join(OUT, "evidence"), exist_ok=True)
    p = os.path.join(OUT, "evidence", pid + ".json")
    json.dump(out, open(p + ".tmp", "w"), indent=1, default=str)
    os.replace(p + ".tmp", p)


def fuzz_stage(pid, cfg, hdir, tier, seed):
    """Coverage-guided native fuzzing (go test -fuzz) of the property's byte-level target, thorough tier only.
    Go's fuzzer cannot be pinned to a seed: the saved crashing input is the reproducible unit."""
    import re
    fz = cfg["fuzz"]
    secs = int(os.environ.get("VERIF_FUZZTIME", fz.get("seconds", 300)))
    tdir = os.path.join(hdir, "props", "testdata", "fuzz", fz["target"])
    before = set(os.listdir(tdir)) if os.path.isdir(tdir) else set()
    cache = tempfile.mkdtemp(prefix="verif-fuzzcache-", dir=scratch_root())  # kept for symmetry; go test uses $GOCACHE/fuzz
    env = goenv()
    env["GOCACHE"] = env.get("GOCACHE") or subprocess.run(["go", "env", "GOCACHE"], capture_output=True, text=True, env=env).stdout.strip()
    env.update(VERIF_TIER=tier, VERIF_KF=os.path.join(HERE, "known_findings.json"), VERIF_OUT="")
    args = ["go", "test", "-tags", "verif", "-vet=off", "-run", "^$", "-fuzz", "^%s$" % fz["target"], "-fuzztime", "%ds" % secs,
            "./props"]
    t0 = time.time()
    try:
        r = subprocess.run(args, cwd=hdir, env=env, stdout=subprocess.PIPE, stderr=subprocess.STDOUT, text=True, timeout=secs + 2400)
        out, code = r.stdout, r.returncode
    except subprocess.TimeoutExpired as e:
        out, code = (e.stdout or b"").decode(errors="replace") if isinstance(e.stdout, bytes) else (e.stdout or ""), 124
    shutil.rmtree(cache, ignore_errors=True)
    extra = {}
    m = re.findall(r"execs: (\d+)", out)
    if m:
        extra["native_fuzz_execs"] = int(m[-1])
    m = re.findall(r"new interesting: \d+ \(total: (\d+)\)", out)
    if m:
        extra["native_fuzz_corpus_entries"] = int(m[-1])
    extra["native_fuzz_seconds"] = int(time.time() - t0)
    viols, notes = [], []
    new = (set(os.listdir(tdir)) if os.path.isdir(tdir) else set()) - before
    if code != 0 and ("--- FAIL" in out or "panic:" in out):
        rdir = os.path.join(OUT, "replays", pid)
        os.makedirs(rdir, exist_ok=True)
        open(os.path.join(rdir, "%s-fuzz.log" % tier), "w").write(out[-100000:])
        if new:
            for n in sorted(new):
                dst = os.path.join(rdir, "%s-fuzz-%s" % (tier, n))
                shutil.move(os.path.join(tdir, n), dst)
                viols.append(dst)
        else:
            viols.append(os.path.join(rdir, "%s-fuzz.log" % tier))
        print(out[-3000:])
    elif code != 0:
        notes.append("native fuzzing stage did not run to completion (exit %s): inconclusive for that stage" % code)
        print("FUZZ STAGE INFRA:\n" + out[-2000:])
    for n in new:  # never leave generated inputs in the source tree
        try:
            os.remove(os.path.join(tdir, n))
        except OSError:
            pass
    return viols, notes, extra


def load_kf():
    p = os.path.join(HERE, "known_findings.json")
    try:
        return {e["id"]: e for e in json.load(open(p))["findings"]}
    except Exception:
        return {}


def run_check(pid, tier, seed, replay=None):
    cfg = CHECKS[pid]
    t0 = time.time()
    hdir, htmp = harness_dir()
    work = tempfile.mkdtemp(prefix="verif-%s-" % pid, dir=scratch_root())
    rc = 2
    try:
        binp = build(hdir, work, cfg.get("race", False), cfg.get("cmds", []))
        if binp is None:
            return 2
        tcfg = dict(cfg.get("tiers", {}).get(tier, {}))
        shards = 1 if replay else int(tcfg.get("shards", cfg.get("shards", 16)))
        checks = int(tcfg.get("checks", 100))
        steps = tcfg.get("steps")
        timeout = int(tcfg.get("timeout", 600 if tier == "quick" else 3600))
        fragdir = os.path.join(work, "frags")
        os.makedirs(fragdir)
        if not replay:
            for old in glob.glob(os.path.join(OUT, "replays", pid, "%s-seed%s-*" % (tier, seed))) + glob.glob(os.path.join(OUT, "replays", pid, tier + "-fuzz*")):
                os.remove(old)
        procs = []
        for k in range(shards):
            sd = os.path.join(work, "s%d" % k)
            os.makedirs(sd)
            env = goenv()
            env.setdefault("GOGC", "off")
            env.setdefault("GOMEMLIMIT", "1GiB")
            env.update(VERIF_OUT=fragdir, VERIF_TIER=tier, VERIF_SHARD=str(k), VERIF_NSHARDS=str(shards),
                       VERIF_BIN=work, VERIF_SEED=str(seed), VERIF_KF=os.path.join(HERE, "known_findings.json"),
                       VERIF_SCRATCH=os.path.join(work, "s%d" % k, "data"), VERIF_REPO=REPO,
                       VERIF_HARNESS=hdir, VERIF_REPLAY_OUT=os.path.join(sd, "replays"))
            is_fuzz_input = bool(replay) and cfg.get("fuzz") and open(replay, "rb").read(16).startswith(b"go test fuzz")
            if is_fuzz_input:
                fdir = os.path.join(sd, "testdata", "fuzz", cfg["fuzz"]["target"])
                os.makedirs(fdir, exist_ok=True)
                shutil.copy(replay, os.path.join(fdir, "replayed"))
            elif replay and not replay.endswith(".fail"):
                env["VERIF_REPLAY"] = os.path.abspath(replay)
            env.update({k2: str(v) for k2, v in (cfg.get("env") or {}).items()})
            env.update({k2: str(v) for k2, v in (tcfg.get("env") or {}).items()})
            os.makedirs(env["VERIF_SCRATCH"])
            runpat = "^%s$" % cfg["test"]
            fz = cfg.get("fuzz")
            if fz and k == 0 and not replay:
                # seeds and committed corpus of the native fuzz target run as plain tests in every tier
                runpat = "^(%s|%s)$" % (cfg["test"], fz["target"])
                corp = os.path.join(HARNESS, "props", "testdata", "fuzz", fz["target"])
                if os.path.isdir(corp):
                    shutil.copytree(corp, os.path.join(sd, "testdata", "fuzz", fz["target"]))
            args = [binp, "-test.run", runpat, "-test.timeout", "%ds" % (timeout + 60),
                    "-test.count=1", "-rapid.checks=%d" % checks]
            if steps:
                args.append("-rapid.steps=%d" % steps)
            if env.get("VERIF_SHRINK"):
                args.append("-rapid.shrinktime=" + env["VERIF_SHRINK"])
            if is_fuzz_input:
                args[2] = "^%s$/^replayed$" % cfg["fuzz"]["target"]
            elif replay and replay.endswith(".fail"):
                args.append("-rapid.failfile=" + os.path.abspath(replay))
            else:
                args.append("-rapid.seed=%d" % shard_seed(seed, k))
            logf = open(os.path.join(sd, "log.txt"), "w")
            procs.append((k, sd, subprocess.Popen(args, cwd=sd, env=env, stdout=logf, stderr=subprocess.STDOUT), logf))
        deadline = time.time() + timeout
        timed_out = False
        results = {}
        for k, sd, p, logf in procs:
            try:
                p.wait(timeout=max(1, deadline - time.time()))
            except subprocess.TimeoutExpired:
                p.kill()
                p.wait()
                timed_out = True
            logf.close()
            results[k] = p.returncode
        ev = merge(glob.glob(os.path.join(fragdir, "frag-*.json")))
        viols = []
        infra = []
        for k, sd, p, _ in procs:
            log = open(os.path.join(sd, "log.txt"), errors="replace").read()
            if results[k] == 0:
                continue
            if "--- FAIL" in log or "panic:" in log or "fatal error:" in log:
                fails = glob.glob(os.path.join(sd, "testdata", "rapid", "**", "*.fail"), recursive=True)
                rdir = os.path.join(OUT, "replays", pid)
                os.makedirs(rdir, exist_ok=True)
                base = os.path.join(rdir, "%s-seed%s-shard%d" % (tier, seed, k))
                open(base + ".log", "w").write(log[-200000:])
                own = glob.glob(os.path.join(sd, "replays", "*.json"))
                if own and not replay:
                    shutil.copy(own[0], base + ".json")
                    viols.append(base + ".json")
                elif fails and not replay:
                    shutil.copy(fails[0], base + ".fail")
                    viols.append(base + ".fail")
                else:
                    viols.append(replay if replay else base + ".log")
            else:
                infra.append((k, results[k], log[-2000:]))
        notes = []
        if cfg.get("fuzz") and tier == "thorough" and not replay and not viols:
            fv, fnotes, fextra = fuzz_stage(pid, cfg, hdir, tier, seed)
            viols += fv
            notes += fnotes
            if fnotes:
                infra.append(("native-fuzz", 2, fnotes[0]))
            for k2, v2 in fextra.items():
                ev["extra"][k2] = ev["extra"].get(k2, 0) + v2
        wall = time.time() - t0
        if timed_out:
            notes.append("time budget hit: inconclusive for the shards that were stopped")
        if not replay:  # a replay of one saved case is not a run of the check: the evidence file stays
            write_evidence(pid, cfg, tier, seed, ev, wall, len(viols), shards, notes)
        kf = load_kf()
        for kid, n in sorted(ev["kf_seen"].items()):
            what = kf.get(kid, {}).get("what_fails") or ev["kf_what"].get(kid, "")
            print("KNOWN-FINDING: property=%s %s %s (observed %d times in this run)" % (pid, kid, what, n))
        print("%s %s: evaluations=%d distinct_nontrivial=%d wall=%.1fs shards=%d" %
              (pid, tier, ev["evaluations"], len(ev["nt"]) + ev["ntcount"], wall, shards))
        if viols:
            for v in viols[:5]:
                print("VIOLATION property=%s replay=%s" % (pid, v))
            # show the head of the first failure for the reader
            try:
                log = open(os.path.splitext(viols[0])[0] + ".log").read()
                print("\n".join(l[:300] for l in log.splitlines()[:25]))
            except Exception:
                pass
            rc = 1
        elif infra or timed_out:
            for k, code, tail in infra[:3]:
                print("INFRA shard %d exit %s:\n%s" % (k, code, tail))
            if timed_out:
                print("INCONCLUSIVE: time budget hit")
            rc = 2
        elif not replay and len(ev["nt"]) + ev["ntcount"] < 2:
            print("INCONCLUSIVE: fewer than 2 non-trivial cases were generated")
            rc = 2
        else:
            rc = 0
        return rc
    finally:
        shutil.rmtree(work, ignore_errors=True)
        if htmp:
            shutil.rmtree(htmp, ignore_errors=True)


def setup():
    hdir, htmp = harness_dir()
    ensure_gosum(hdir)
    work = tempfile.mkdtemp(prefix="verif-setup-", dir=scratch_root())
    try:
        cmds = sorted({c for cfg in CHECKS.values() for c in cfg.get("cmds", [])})
        ok = build(hdir, work, False, cmds) is not None
        if any(cfg.get("race") for cfg in CHECKS.values()):
            ok = (build(hdir, work, True, []) is not None) and ok
        return 0 if ok else 2
    finally:
        shutil.rmtree(work, ignore_errors=True)
        if htmp:
            shutil.rmtree(htmp, ignore_errors=True)


def main():
    ap = argparse.ArgumentParser()
    ap.add_argument("id", nargs="?")
    ap.add_argument("--tier", default=os.environ.get("VERIF_TIER", "quick"), choices=["quick", "thorough"])
    ap.add_argument("--replay")
    ap.add_argument("--setup", action="store_true")
    a = ap.parse_args()
    if a.setup:
        sys.exit(setup())
    if a.id not in CHECKS:
        print("unknown check", a.id)
        sys.exit(2)
    try:
        seed = int(os.environ.get("VERIF_SEED", "1"))
    except ValueError:
        seed = 1
    sys.exit(run_check(a.id, a.tier, seed, a.replay))


if __name__ == "__main__":
    main()
