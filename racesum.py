#!/usr/bin/env python3
"""Summarises Go race-detector reports in log files: pairs of (access, top marketstore frame)."""
import re, sys, collections
pairs = collections.Counter()
for path in sys.argv[1:]:
    txt = open(path, errors="replace").read()
    for blk in txt.split("WARNING: DATA RACE")[1:]:
        blk = blk.split("==================")[0]
        secs = re.split(r"\n(?=(?:Read|Write|Previous read|Previous write) at )", blk)
        tops = []
        for s in secs:
            m = re.match(r"\s*(Read|Write|Previous read|Previous write) at ", s)
            if not m:
                continue
            frames = re.findall(r"\n  (\S+)\(\)\n\s+(\S+?):(\d+)", s)
            top = next((f for f in frames if "/repo/" in f[1] or "marketstore/v4" in f[0]), frames[0] if frames else ("?", "?", "0"))
            tops.append("%s %s (%s:%s)" % (m.group(1), top[0].split("/")[-1], top[1].split("/")[-1], top[2]))
        if len(tops) >= 2:
            pairs[" <-> ".join(tops[:2])] += 1
for k, v in pairs.most_common():
    print(v, k)
