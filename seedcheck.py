#!/usr/bin/env python3
"""Validates one seeded change and runs the checks against it.

  python3 seedcheck.py <dir with patch.diff, meta.json, demo files> [--checks C01,C05] [--tier quick] [--keep]

Steps (all in a scratch git worktree of /repo under /dev/shm, removed afterwards):
  1. demonstration on the unchanged tree           -> must pass
  2. git apply patch.diff; go build ./...          -> must succeed
  3. demonstration on the changed tree             -> must fail
  4. the repository's own test suite (no tags)     -> every stable_pass test of BASELINE.json passes
  5. python3 run.py <ID> --tier quick with VERIF_REPO=<worktree> for the property's check (and --checks)
Writes <dir>/validation.json and prints a summary line. Never touches /repo's working tree.
"""
import argparse, json, os, shutil, subprocess, sys, time

HERE = os.path.dirname(os.path.abspath(__file__))
ENV = dict(os.environ, GOFLAGS="-mod=mod", GOPROXY="off", GOSUMDB="off", GOTOOLCHAIN="local", TZ="UTC")


def sh(cmd, cwd, timeout=1800, env=ENV):
    try:
        p = subprocess.run(cmd, cwd=cwd, env=env, shell=isinstance(cmd, str), stdout=subprocess.PIPE,
                           stderr=subprocess.STDOUT, text=True, errors="replace", timeout=timeout)
        return p.returncode, p.stdout
    except subprocess.TimeoutExpired as e:
        return 124, (e.stdout or "") + "\nTIMEOUT"


def suite(wt):
    base = json.load(open("/root/.vp/BASELINE.json"))
    want = set(base["stable_pass"])
    rc, out = sh(["go", "test", "-json", "-vet=off", "-count=1", "-timeout", "25m", "./..."], wt, timeout=2400)
    passed, failed = set(), set()
    for line in out.splitlines():
        try:
            e = json.loads(line)
        except Exception:
            continue
        if e.get("Test") and e.get("Action") in ("pass", "fail"):
            (passed if e["Action"] == "pass" else failed).add("%s::%s" % (e["Package"], e["Test"]))
    missing = sorted(want - passed)
    # a baseline test that did not pass in the full run is re-run alone (twice at most): under a
    # loaded machine contrib/ice/reorg's parallel tests are flaky on the unchanged tree as well
    still = []
    for m in missing:
        pkg, name = m.split("::", 1)
        rel = "./" + pkg.split("/v4/", 1)[1] if "/v4/" in pkg else "./..."
        ok = False
        for _ in range(2):
            rc, _o = sh(["go", "test", "-vet=off", "-count=1", "-run", "^%s$" % name.split("/")[0], rel], wt, timeout=900)
            if rc == 0:
                ok = True
                break
        if not ok:
            still.append(m)
    return still, sorted(failed)


def main():
    ap = argparse.ArgumentParser()
    ap.add_argument("dir")
    ap.add_argument("--checks", default="")
    ap.add_argument("--tier", default="quick")
    ap.add_argument("--skip-validate", action="store_true", help="only run the checks (validation was done before)")
    ap.add_argument("--seed", default="1")
    a = ap.parse_args()
    d = os.path.abspath(a.dir)
    meta = json.load(open(os.path.join(d, "meta.json")))
    pid = meta["property"]
    tag = os.path.basename(d.rstrip("/"))
    wt = "/dev/shm/sv-" + tag
    subprocess.run(["git", "-C", "/repo", "worktree", "remove", "--force", wt], stdout=subprocess.DEVNULL, stderr=subprocess.DEVNULL)
    shutil.rmtree(wt, ignore_errors=True)
    subprocess.run(["git", "-C", "/repo", "worktree", "prune"])
    rc, out = sh(["git", "-C", "/repo", "worktree", "add", "-q", "--detach", wt, "HEAD"], "/")
    if rc != 0:
        print("cannot create worktree:", out)
        return 2
    res = dict(tag=tag, property=pid, repo_head=subprocess.run(["git", "-C", "/repo", "rev-parse", "--short", "HEAD"], capture_output=True, text=True).stdout.strip())
    try:
        def place_demo():
            for f in meta.get("demo_files", []):
                dst = os.path.join(wt, f["dst"])
                os.makedirs(os.path.dirname(dst), exist_ok=True)
                shutil.copy(os.path.join(d, f["src"]), dst)

        def remove_demo():
            for f in meta.get("demo_files", []):
                try:
                    os.remove(os.path.join(wt, f["dst"]))
                except OSError:
                    pass
        if not a.skip_validate:
            place_demo()
            rc, out = sh(meta["demo_cmd"], wt, timeout=900)
            res["demo_unchanged_rc"] = rc
            res["demo_unchanged_tail"] = out[-1500:]
            # flakiness of the demonstration on the unchanged tree: run twice more
            for _ in range(2):
                rc2, _o = sh(meta["demo_cmd"], wt, timeout=900)
                if rc2 != 0:
                    res["demo_unchanged_rc"] = rc2
            remove_demo()
        rc, out = sh(["git", "apply", os.path.join(d, "patch.diff")], wt)
        res["apply_rc"] = rc
        if rc != 0:
            res["apply_out"] = out[-1500:]
            raise SystemExit
        if not a.skip_validate:
            rc, out = sh(["go", "build", "./..."], wt)
            res["build_rc"] = rc
            if rc != 0:
                res["build_out"] = out[-1500:]
                raise SystemExit
            place_demo()
            fails = 0
            for _ in range(3):
                rc, out = sh(meta["demo_cmd"], wt, timeout=900)
                fails += rc != 0
            res["demo_changed_fail_runs_of_3"] = fails
            res["demo_changed_tail"] = out[-1500:]
            remove_demo()
            missing, failed = suite(wt)
            res["suite_stable_not_passed"] = missing
            res["suite_failed"] = failed
        res["valid"] = a.skip_validate or (res.get("demo_unchanged_rc") == 0 and res.get("demo_changed_fail_runs_of_3", 0) >= 2
                                           and not res.get("suite_stable_not_passed"))
        checks = [pid] + [c for c in a.checks.split(",") if c and c != pid]
        res["checks"] = {}
        for c in checks:
            t0 = time.time()
            env = dict(os.environ, VERIF_REPO=wt, VERIF_SEED=a.seed)
            rc, out = sh([sys.executable, os.path.join(HERE, "run.py"), c, "--tier", a.tier], HERE, timeout=4000, env=env)
            lines = [l for l in out.splitlines() if l.startswith("VIOLATION") or l.startswith("KNOWN-FINDING") or l.startswith(c + " ") or l.startswith("INCONCLUSIVE") or l.startswith("BUILD FAILED") or l.startswith("INFRA")]
            # first failure message for the record
            head = [l for l in out.splitlines() if "[rapid] failed" in l or "panic:" in l or "DATA RACE" in l][:3]
            res["checks"][c] = dict(rc=rc, wall=round(time.time() - t0, 1), lines=lines[:8], first_failure=[h[:400] for h in head])
        res["caught_by"] = [c for c, r in res["checks"].items() if r["rc"] == 1]
    except SystemExit:
        res.setdefault("valid", False)
    finally:
        subprocess.run(["git", "-C", "/repo", "worktree", "remove", "--force", wt], stdout=subprocess.DEVNULL, stderr=subprocess.DEVNULL)
        shutil.rmtree(wt, ignore_errors=True)
        shutil.rmtree("/dev/shm/verif-sensitivity-sv-" + tag, ignore_errors=True)
    vp = os.path.join(d, "validation.json")
    if a.skip_validate and os.path.exists(vp):
        # keep the earlier validation (demonstration, suite) and merge the check results: newer wins
        try:
            old = json.load(open(vp))
            for k in ("demo_unchanged_rc", "demo_unchanged_tail", "demo_changed_fail_runs_of_3", "demo_changed_tail", "suite_stable_not_passed",
                      "suite_failed", "build_rc", "note"):
                if k in old and k not in res:
                    res[k] = old[k]
            checks = dict(old.get("checks") or {})
            for c, r in (old.get("checks") or {}).items():
                r.setdefault("superseded", False)
            for c, r in (res.get("checks") or {}).items():
                if c in checks and checks[c].get("rc") != r.get("rc"):
                    r["earlier_rc_before_the_check_was_strengthened"] = checks[c].get("rc")
                checks[c] = r
            res["checks"] = checks
            res["caught_by"] = [c for c, r in checks.items() if r["rc"] == 1]
            res["valid"] = bool(old.get("valid"))
        except Exception as e:
            res["merge_error"] = str(e)
    json.dump(res, open(vp, "w"), indent=1)
    print("SEED %s property=%s valid=%s caught_by=%s  (demo unchanged rc=%s, changed fails=%s/3, suite not passed=%d)" % (
        tag, pid, res.get("valid"), res.get("caught_by"), res.get("demo_unchanged_rc"), res.get("demo_changed_fail_runs_of_3"),
        len(res.get("suite_stable_not_passed") or [])))
    for c, r in (res.get("checks") or {}).items():
        print("   check %s rc=%s wall=%ss %s" % (c, r["rc"], r["wall"], " | ".join(r["first_failure"][:1])[:300]))
    return 0


if __name__ == "__main__":
    sys.exit(main())
